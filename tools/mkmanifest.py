#!/usr/bin/env python3
"""Regenerates MANIFEST.json from the table below (only properties whose check is built are claimed)."""
import json, subprocess, os
HERE = os.path.dirname(os.path.dirname(os.path.abspath(__file__)))
props = [json.loads(l) for l in open(os.path.join(HERE, 'properties.jsonl'))]

BUILT = {
 # id: (level, technique, level_text, level_note, design_ref)
 'C12': ('fault_enumeration', 'runtime monitoring: offline oracle over recorded Send/Receive histories and a wire tap, real tcpTransport over a fault-injecting in-memory net.Conn (build-tag hook) and over real sockets',
         'Every enumerated fault plan (all single/pairs of split offsets, all short-write lengths x timeout repeats, all pairs of short writes, all cut offsets, coalescing, context expiry mid-envelope also with a coalesced predecessor, TLS 1.2/1.3 close with everything arriving at once, a rejected value followed by a valid envelope, a send whose context ends after a partial write, long streams over a real listener and dialer) plus seeded random plans (with TLS) is executed against the real transport code; the monitor compares the received sequence and the wire bytes with what was acknowledged. Held = held on these executions.',
         'faultconn honours the net.Conn contract; crypto/tls, encoding/json trusted; envelopes from the well-formed generator', 'DESIGN.md §5 C12'),
}
def load_built():
    p = os.path.join(HERE, 'tools', 'built.json')
    if os.path.exists(p):
        for k, v in json.load(open(p)).items():
            BUILT[k] = tuple(v)
load_built()

hook_commits = subprocess.run(['git', '-C', '/repo', 'log', '--format=%H', '--grep=^verif:'], capture_output=True, text=True).stdout.split()

m = {
 'version': 1,
 'setup_cmd': './setup.sh',
 'hooks': {
   'guard': 'verif',
   'enable': 'go build -tags verif (the harness module in /verif/harness replaces github.com/takenet/lime-go with /repo and is always built with -tags verif)',
   'baseline_off_cmd': 'cd /repo && GOFLAGS=-mod=mod GOPROXY=off GOSUMDB=off GOTOOLCHAIN=local go test -vet=off -count=1 -timeout 25m ./...',
   'source_commits': hook_commits,
   'add_only': True,
 },
 'engines': [
   {'name': 'harness', 'path': 'harness/', 'serves_properties': sorted(BUILT), 'kind_free_text': 'Go module: parent/child runner, fault-injecting net.Conn, scripted raw peers, handshake explorers, session rig, goroutine census; monitors/oracles per property in harness/internal/props'},
 ],
 'checks': [],
 'not_applicable': [],
 'notes': 'All checks are runtime monitors over executions of the real code (see DESIGN.md). ./check <ID> rebuilds the harness against /repo\'s working tree with -tags verif on every invocation. Race-detector reports are observations only (the pinned suite itself races). known_findings.json lists fixed/known findings.',
}
for p in props:
    pid = p['id']
    if pid in BUILT:
        level, tech, text, note, ref = BUILT[pid]
        m['checks'].append({
          'property_id': pid,
          'quick_cmd': './check %s --tier quick' % pid,
          'thorough_cmd': './check %s --tier thorough' % pid,
          'evidence_file': 'evidence/%s.json' % pid,
          'replay_cmd_template': './check %s --replay {path}' % pid,
          'engine': 'harness',
          'level_claimed': {'category': level, 'text': text, 'design_ref': ref},
          'level_note': note,
          'technique': tech,
        })
    else:
        m['not_applicable'].append({'property_id': pid, 'reason': 'runtime monitor designed (DESIGN.md §5) but its check is not built yet in this tree; not claimed until it is'})
json.dump(m, open(os.path.join(HERE, 'MANIFEST.json'), 'w'), indent=1)
print('checks:', [c['property_id'] for c in m['checks']])
