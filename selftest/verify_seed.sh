#!/bin/bash
# usage: selftest/verify_seed.sh <worktree> <a|b> <PROP>   -> verifies the sub-agent's seeded change independently and, if confirmed,
# stores it as /verif/seeded/<PROP>-<a|b>/ {patch.diff, demo test, meta.json}
set -u
WT="$1"; X="$2"; PROP="$3"; OUTX="${4:-$2}"
export GOFLAGS=-mod=mod GOPROXY=off GOSUMDB=off GOTOOLCHAIN=local
SEED="$WT/_seed"
PATCH="$SEED/$X.patch.diff"; DEMO=$(ls "$SEED"/zz_seed_demo_${X}_test.go 2>/dev/null | head -1)
[ -f "$PATCH" ] && [ -n "$DEMO" ] || { echo "missing deliverables in $SEED"; exit 2; }
SCR="$HOME/.cache/verif-scratch/v$$-$RANDOM"; mkdir -p "$SCR/lime-go"; trap 'rm -rf "$SCR"' EXIT
( cd /repo && git archive HEAD ) | tar -x -C "$SCR/lime-go"
cd "$SCR/lime-go"; git init -q . >/dev/null 2>&1
RUNPAT=$(grep -ho 'func Test[A-Za-z0-9_]*' "$DEMO" | sed 's/func //' | paste -sd'|')
demo() { cp "$DEMO" ./zz_seed_demo_test.go; timeout 600 go test -vet=off -count=1 -run "^($RUNPAT)\$" . > "$SCR/demo.$1.log" 2>&1; local rc=$?; rm -f ./zz_seed_demo_test.go; return $rc; }
demo without; RC_WITHOUT=$?
if ! git apply "$PATCH" 2> "$SCR/apply.err"; then
  # try with 3-way-less fuzz: patch(1)
  if ! patch -p1 --no-backup-if-mismatch < "$PATCH" > "$SCR/apply.err" 2>&1; then echo "PATCH DOES NOT APPLY to current /repo HEAD"; cat "$SCR/apply.err"; exit 3; fi
fi
go build ./... > "$SCR/build.log" 2>&1; RC_BUILD=$?
go build -tags verif ./... >> "$SCR/build.log" 2>&1; RC_BUILD2=$?
SUITE_OK=0
for i in 1 2 3; do if timeout 900 unshare -n sh -c "ip link set lo up; go test -vet=off -count=1 ./..." > "$SCR/suite.log" 2>&1; then SUITE_OK=1; break; fi; done
demo with; RC_WITH=$?
git diff > "$SCR/patch.rebased.diff" 2>/dev/null || true
echo "demo_without_rc=$RC_WITHOUT build_rc=$RC_BUILD/$RC_BUILD2 suite_ok=$SUITE_OK demo_with_rc=$RC_WITH"
if [ $RC_WITHOUT -eq 0 ] && [ $RC_BUILD -eq 0 ] && [ $RC_BUILD2 -eq 0 ] && [ $SUITE_OK -eq 1 ] && [ $RC_WITH -ne 0 ]; then
  OUT="/verif/seeded/$PROP-$OUTX"; mkdir -p "$OUT"
  # store the patch as it applies to the current HEAD
  ( cd "$SCR/lime-go" && git add -A >/dev/null 2>&1; git -c user.email=x -c user.name=x commit -qm base >/dev/null 2>&1 ) || true
  ( cd "$SCR" && rm -rf base && mkdir base && cd base && ( cd /repo && git archive HEAD ) | tar -x && cd .. && diff -ruN --exclude=.git base lime-go | sed 's#^--- base/#--- a/#; s#^+++ lime-go/#+++ b/#; s#^diff -ruN --exclude=.git base/\(.*\) lime-go/\(.*\)#diff --git a/\1 b/\2#' > "$OUT/patch.diff" )
  cp "$DEMO" "$OUT/$(basename "$DEMO")"
  python3 - "$SEED/$X.meta.json" "$OUT/meta.json" "$PROP" "$RUNPAT" "$(tail -5 "$SCR/demo.with.log" | tr '\n' '|' | cut -c1-600)" <<'PY'
import json,sys
src,dst,prop,runpat,demotail=sys.argv[1:6]
try: m=json.load(open(src))
except Exception: m={}
m['property']=prop
m['confirmed_by_verif_author']={
 'ran':'selftest/verify_seed.sh: scratch copy of /repo HEAD outside /repo and /verif; demo without patch (go test -run "^(%s)$" .) -> pass; git apply patch; go build ./... and go build -tags verif ./... -> ok; go test -vet=off -count=1 ./... -> pass; demo with patch -> FAIL' % runpat,
 'demo_output_with_change_tail': demotail,
}
json.dump(m,open(dst,'w'),indent=1)
PY
  echo "CONFIRMED -> $OUT"
else
  echo "NOT CONFIRMED"; tail -5 "$SCR/demo.without.log" "$SCR/demo.with.log" "$SCR/suite.log" 2>/dev/null | cut -c1-300
  exit 1
fi
