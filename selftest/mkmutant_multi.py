#!/usr/bin/env python3
"""usage: mkmutant_multi.py <name> <spec.py>  — spec.py defines EDITS = [(path, old, new), ...]; every old text must occur
exactly once in /repo HEAD's file. Writes /verif/mutants/<name>.patch."""
import sys, subprocess, tempfile, os, shutil
name = sys.argv[1]
ns = {}
exec(open(sys.argv[2]).read(), ns)
files = {}
for path, old, new in ns['EDITS']:
    if path not in files:
        src = subprocess.run(['git', '-C', '/repo', 'show', 'HEAD:' + path], capture_output=True, text=True, check=True).stdout
        files[path] = [src, src]
    cur = files[path][1]
    assert cur.count(old) == 1, '%s: old text occurs %d times: %r' % (path, cur.count(old), old[:60])
    files[path][1] = cur.replace(old, new)
d = tempfile.mkdtemp(dir=os.path.expanduser('~/.cache'))
try:
    out = ''
    for path, (a, b) in files.items():
        for side, txt in (('a', a), ('b', b)):
            os.makedirs(os.path.join(d, side, os.path.dirname(path)), exist_ok=True)
            open(os.path.join(d, side, path), 'w').write(txt)
        out += subprocess.run(['diff', '-u', os.path.join('a', path), os.path.join('b', path)], cwd=d, capture_output=True, text=True).stdout
    open('/verif/mutants/%s.patch' % name, 'w').write(out)
    print('wrote', name, len(out.splitlines()), 'lines')
finally:
    shutil.rmtree(d)
