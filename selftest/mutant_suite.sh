#!/bin/bash
# usage: selftest/mutant_suite.sh <patch>...  — for each patch: does the library still build (with and without the
# verif tag) and does the pinned suite still pass with it? Prints "<name> build=ok|FAIL suite=ok|FAIL".
export GOFLAGS=-mod=mod GOPROXY=off GOSUMDB=off GOTOOLCHAIN=local
for f in "$@"; do
  n=$(basename "$f" .patch); f=$(realpath "$f")
  S="$HOME/.cache/verif-scratch/s$$-$RANDOM"; mkdir -p "$S/lime-go"
  ( cd /repo && git archive HEAD ) | tar -x -C "$S/lime-go"
  ( cd "$S/lime-go" && git init -q . >/dev/null 2>&1 && git apply "$f" ) || { echo "$n apply=FAIL"; rm -rf "$S"; continue; }
  b=ok; s=ok
  ( cd "$S/lime-go" && go build ./... && go build -tags verif ./... ) >/dev/null 2>"$S/build.err" || b=FAIL
  if [ $b = ok ]; then
    ( cd "$S/lime-go" && unshare -n sh -c "ip link set lo up; go test -vet=off -count=1 -timeout 3m ./..." ) >"$S/test.out" 2>&1 || s="FAIL($(grep -c '^--- FAIL' "$S/test.out"): $(grep '^--- FAIL' "$S/test.out" | head -3 | awk '{print $3}' | tr '\n' ' '))"
  else s=-; fi
  echo "$n build=$b suite=$s"
  rm -rf "$S"
done
