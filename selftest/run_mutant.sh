#!/bin/bash
# usage: selftest/run_mutant.sh <patch-file|--revert <commit>> <ID> [tier]
# Applies a patch to a scratch copy of /repo (outside /repo and /verif), runs ./check <ID> against it, removes the copy.
# Exit status: that of the check (1 = the mutant was detected).
set -u
cd "$(dirname "$0")/.."; VERIF_ROOT="$(pwd)"
if [ "$1" = "--revert" ]; then MODE=revert; WHAT="$2"; shift 2; else MODE=patch; WHAT="$(realpath "$1")"; shift; fi
ID="$1"; TIER="${2:-quick}"
SCR="$HOME/.cache/verif-scratch/m$$-$RANDOM"
mkdir -p "$SCR/lime-go" "$SCR/out"
trap 'rm -rf "$SCR"' EXIT
( cd /repo && git archive HEAD ) | tar -x -C "$SCR/lime-go"
cd "$SCR/lime-go"
if [ "$MODE" = patch ]; then
  git init -q . >/dev/null 2>&1
  if ! git apply "$WHAT" 2>"$SCR/apply.err"; then echo "PATCH-DOES-NOT-APPLY $WHAT"; cat "$SCR/apply.err"; exit 3; fi
else
  git -C /repo show "$WHAT" | ( git init -q . >/dev/null 2>&1; git apply -R ) || { echo "REVERT-FAILED $WHAT"; exit 3; }
fi
rm -rf .git
cd "$VERIF_ROOT"
VERIF_REPO="$SCR/lime-go" VERIF_OUT="$SCR/out" ./check "$ID" --tier "$TIER" 2>&1 | grep -E '^(VIOLATION|KNOWN-FINDING|SUMMARY|BUILD-FAILED|NOTE)' | cut -c1-400 | sed -n "1,${MUTANT_LINES:-8}p"
exit ${PIPESTATUS[0]}
