#!/bin/bash
# Sensitivity self-test: every stored seeded change (sub-agent made, /verif/seeded/*), every hand-written mutant
# (/verif/mutants/*.patch, named <PROP>-*.patch) and every pre-fix tree (one 'fix:' commit reverted) is applied to a
# scratch copy of /repo outside /repo and /verif and the property's quick check is run against it (VERIF_REPO).
# Writes selftest/results.tsv: kind, name, property, exit code, seconds, first finding key.
# usage: selftest/run_all.sh [parallel jobs, default 3] [filter regex]
cd "$(dirname "$0")/.."
JOBS="${1:-3}"; FILTER="${2:-.}"
OUT=selftest/results.tsv
TMP=$(mktemp -d "$HOME/.cache/verif-selftest.XXXX"); trap 'rm -rf "$TMP"' EXIT
list="$TMP/list"
: > "$list"
for d in seeded/*/; do n=$(basename "$d"); p=${n%%-*}; echo "seed $n $p seeded/$n/patch.diff" >> "$list"; done
for f in mutants/*.patch; do n=$(basename "$f" .patch); p=${n%%-*}; echo "mutant $n $p $f" >> "$list"; done
# additional runs against another property's check (selftest/also.tsv)
grep -v '^#' selftest/also.tsv | while read -r n p; do
  [ -z "$n" ] && continue
  if [ -d "seeded/$n" ]; then echo "seed $n $p seeded/$n/patch.diff" >> "$list"; elif [ -f "mutants/$n.patch" ]; then echo "mutant $n $p mutants/$n.patch" >> "$list"; fi
done
while read -r c p; do echo "revert $c $p --revert" >> "$list"; done <<'REV'
b2d3985 C02
d9318e4 C02
0de754f C02
64fbe48 C02
6769d8a C08
59cf698 C08
5c8b557 C10
0491549 C11
41899ef C11
99ea34d C12
6af1c86 C14
ffa0555 C15
bea9096 C15
f1f4efe C15
20a2502 C18
a4a3235 C18
7409b1d C18
06b0dfc C19
4055d97 C18
649779a C13
459ad16 C13
1b8802c C05
36d3401 C13
369895b C12
3b2934b C12
3ab4ce6 C19
REV
# (601fd12 is a race that the quick tier does not force: not in the list)
grep -E "$FILTER" "$list" > "$list.f"
run_one() {
  kind="$1"; name="$2"; prop="$3"; arg="$4"
  t0=$(date +%s)
  if [ "$kind" = revert ]; then
    out=$(VERIF_WORKERS=6 MUTANT_LINES=1 selftest/run_mutant.sh --revert "$name" "$prop" 2>&1); rc=$?
  else
    out=$(VERIF_WORKERS=6 MUTANT_LINES=1 selftest/run_mutant.sh "$arg" "$prop" 2>&1); rc=$?
  fi
  t1=$(date +%s)
  key=$(echo "$out" | grep -o 'key=[^ ]*' | head -1)
  [ -z "$key" ] && key=$(echo "$out" | head -1 | cut -c1-80)
  printf "%s\t%s\t%s\t%s\t%s\t%s\n" "$kind" "$name" "$prop" "$rc" "$((t1-t0))" "$key"
}
export -f run_one
: > "$OUT.tmp"
cat "$list.f" | xargs -P "$JOBS" -L 1 bash -c 'run_one "$0" "$1" "$2" "$3"' >> "$OUT.tmp"
sort "$OUT.tmp" > "$OUT"; rm -f "$OUT.tmp"
echo "runs that detected: $(awk -F'\t' '$4==1' "$OUT" | wc -l) / $(wc -l < "$OUT")"
# a change counts as detected when at least one of its runs (own property or selftest/also.tsv) detects it
awk -F'\t' '{k=$1" "$2; seen[k]=1; if ($4==1) det[k]=1} END {n=0; d=0; for (k in seen) {n++; if (det[k]) d++; else print "NOT DETECTED: " k}; print "changes detected: " d " / " n}' "$OUT"
