#!/usr/bin/env python3
"""usage: mkmutant.py <name> <file> <<< 'OLD\n=====\nNEW'   — writes /verif/mutants/<name>.patch (git diff against /repo HEAD)."""
import sys, subprocess, tempfile, os, shutil
name, path = sys.argv[1], sys.argv[2]
spec = sys.stdin.read()
old, new = spec.split('\n=====\n')
old = old.rstrip('\n'); new = new.rstrip('\n')
src = subprocess.run(['git', '-C', '/repo', 'show', 'HEAD:' + path], capture_output=True, text=True, check=True).stdout
assert src.count(old) == 1, 'old text occurs %d times' % src.count(old)
d = tempfile.mkdtemp(dir=os.path.expanduser('~/.cache'))
try:
    os.makedirs(os.path.join(d, 'a', os.path.dirname(path)), exist_ok=True)
    os.makedirs(os.path.join(d, 'b', os.path.dirname(path)), exist_ok=True)
    open(os.path.join(d, 'a', path), 'w').write(src)
    open(os.path.join(d, 'b', path), 'w').write(src.replace(old, new))
    out = subprocess.run(['diff', '-u', os.path.join('a', path), os.path.join('b', path)], cwd=d, capture_output=True, text=True).stdout
    open('/verif/mutants/%s.patch' % name, 'w').write(out)
    print('wrote', name, len(out.splitlines()), 'lines')
finally:
    shutil.rmtree(d)
