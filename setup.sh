#!/bin/bash
# Offline setup: warms the Go build cache by building the harness once (checks rebuild anyway).
set -e
cd "$(dirname "$0")/harness"
export GOFLAGS=-mod=mod GOPROXY=off GOSUMDB=off GOTOOLCHAIN=local
mkdir -p ../.bin ../.scratch ../evidence
go build -tags verif -o ../.bin/harness.setup ./cmd/harness
rm -f ../.bin/harness.setup
echo "setup ok"
