// Command harness is the single binary behind /verif/check: parent (run) and child (worker) modes.
package main

import (
	"fmt"
	"io"
	"log"
	"os"
	"strconv"

	"verif/harness/internal/core"
	_ "verif/harness/internal/props"
)

func main() {
	if len(os.Args) < 2 {
		fmt.Fprintln(os.Stderr, "usage: harness run <ID> <tier> | worker <ID> <in> <out> | list")
		os.Exit(2)
	}
	switch os.Args[1] {
	case "list":
		for _, id := range core.IDs() {
			fmt.Println(id)
		}
	case "worker":
		// The library logs inside hot loops; children discard it (stderr is kept for panics/dumps).
		if os.Getenv("VERIF_KEEP_LOG") == "" {
			log.SetOutput(io.Discard)
		}
		os.Exit(core.WorkerMain(os.Args[2], os.Args[3], os.Args[4]))
	case "run":
		opt := core.Options{PropID: os.Args[2], Tier: "quick", Seed: 1}
		if len(os.Args) > 3 {
			opt.Tier = os.Args[3]
		}
		if v := os.Getenv("VERIF_SEED"); v != "" {
			if n, err := strconv.ParseUint(v, 10, 64); err == nil {
				opt.Seed = n
			}
		}
		if v := os.Getenv("VERIF_WORKERS"); v != "" {
			opt.Workers, _ = strconv.Atoi(v)
		}
		opt.Exe, _ = os.Executable()
		opt.RaceExe = os.Getenv("VERIF_RACE_EXE")
		opt.VerifDir = os.Getenv("VERIF_DIR")
		if opt.VerifDir == "" {
			opt.VerifDir = "/verif"
		}
		opt.Replay = os.Getenv("VERIF_REPLAY")
		os.Exit(core.ParentMain(opt))
	default:
		fmt.Fprintln(os.Stderr, "unknown mode", os.Args[1])
		os.Exit(2)
	}
}
