package props

import (
	"context"
	"fmt"
	"net"
	"os"
	"runtime"
	"strings"
	"sync"
	"sync/atomic"
	"time"

	"github.com/gorilla/websocket"
	lime "github.com/takenet/lime-go"

	"verif/harness/internal/core"
	"verif/harness/internal/rig"
)

// C18 — Server start/stop is orderly under any timing.
type c18 struct{}

func init() { core.Register(c18{}) }

func (c18) ID() string                  { return "C18" }
func (c18) Level() string               { return "exploration" }
func (c18) ChildParallel() int          { return 1 }
func (c18) Exhaustive(tier string) bool { return false }
func (c18) Rule() string {
	return "A real Server with 1..4 listeners (TCP, WebSocket, in-process; several TCP listeners in some scenarios) is closed at a chosen moment: immediately after serving is observable, during an accept storm (8-32 concurrent diallers, some of which fail their handshake on purpose), with raw clients parked at each handshake stage, or during established traffic (0, 1 or 8 sessions, idle or busy), with seeded perturbation at the server.accept.enqueue / server.consume.loop hook points. One scenario at a time per child. " +
		"Monitor: ListenAndServe returns ErrServerClosed within 15 s; afterwards no listener accepts (a new dial fails or is never served); every client that saw an established session and keeps draining observes a finished session within 15 s; the child does not crash; lime-owned goroutines return to the pre-server census within 12 s; per session id the Established callback fired exactly once iff the client saw 'established', before any handler ran for that id, and the Finished callback exactly once afterwards for exactly the same ids. Non-trivial = Close overlapping at least one accept / handshake / traffic event (measured); distinct = (listener set, session mix, close moment, seed)."
}
func (c18) Assumptions() []string {
	return []string{"a server is 'serving' once its listeners are bound (Close before that is not generated)", "bounded progress 15 s, census 12 s, canary-guarded"}
}
func (c18) Floors(tier string) map[string]int {
	return map[string]int{"scenarios": 40, "serve_returned_closed": 40, "sessions_established": 100, "finished_observed": 100, "close_overlapped_activity": 20, "census_clean": 35, "failed_handshakes_mixed": 20}
}

type c18scn struct {
	Listeners []string `json:"listeners"`
	Sessions  int      `json:"sessions"`
	Busy      bool     `json:"busy"`
	Echo      bool     `json:"echo,omitempty"` // the server's message handler answers every message (with its own context)
	Moment    string   `json:"moment"`         // immediate | storm | parked | traffic
	Storm     int      `json:"storm"`
	Perturb   bool     `json:"perturb"`
	Stalled   int      `json:"stalled"` // clients that stop reading while the server keeps pushing to them
}

func (c18) Plan(tier string, seed uint64) []core.Case {
	var scns []c18scn
	lsets := [][]string{{rig.TCP}, {rig.InProc}, {rig.WS}, {rig.TCP, rig.WS}, {rig.TCP, rig.InProc, rig.WS}, {rig.InProc, rig.TCP}, {rig.TCP, rig.TCP + "2", rig.TCP + "3", rig.TCP + "4"}}
	moments := []string{"immediate", "storm", "parked", "traffic"}
	rng := core.NewRng(seed)
	n := 60
	if tier == "thorough" {
		n = 600
	}
	for i := 0; i < n; i++ {
		s := c18scn{Listeners: lsets[i%len(lsets)], Sessions: []int{0, 1, 8}[(i/2)%3], Busy: i%2 == 0, Moment: moments[(i/3)%4], Storm: 8 + rng.Intn(25), Perturb: i%3 != 2}
		if i%4 == 1 {
			s.Stalled = 1 + i%2
		}
		scns = append(scns, s)
	}
	// busy in-process sessions at Close: each of their clients has to observe the finished session (an envelope queued
	// right before the close of an in-process pipe must not be dropped; a receiver that is already blocked in Receive
	// gets it handed over directly, one that is busy with earlier traffic finds both the envelope and the closing)
	for k, m := range []string{"immediate", "traffic", "immediate", "traffic"} {
		scns = append(scns, c18scn{Listeners: []string{rig.InProc}, Sessions: 8, Busy: true, Moment: m, Storm: 8, Perturb: k >= 2})
	}
	// sessions whose handlers are answering at the moment of Close
	for k, ls := range [][]string{{rig.TCP}, {rig.WS}, {rig.InProc}, {rig.TCP, rig.InProc, rig.WS}} {
		scns = append(scns, c18scn{Listeners: ls, Sessions: 8, Busy: true, Echo: true, Moment: "traffic", Storm: 8, Perturb: k%2 == 1})
	}
	var cases []core.Case
	per := 4
	for i := 0; i < len(scns); i += per {
		hi := i + per
		if hi > len(scns) {
			hi = len(scns)
		}
		var sub []interface{}
		for _, s := range scns[i:hi] {
			sub = append(sub, s)
		}
		if i == 0 {
			cases = append(cases, core.Case{ID: "C18/inproc-registry", Engine: "registry", Seed: seed, Solo: true, TimeoutS: 300})
			rounds := 25
			if tier == "thorough" {
				rounds = 200
			}
			cases = append(cases, core.Case{ID: "C18/failrace", Engine: "failrace", Seed: seed, Solo: true, P: map[string]interface{}{"rounds": rounds}, TimeoutS: 600})
		}
		cases = append(cases, core.Case{ID: fmt.Sprintf("C18/%03d", i/per), Engine: "scenarios", Seed: core.Derive(seed, uint64(i)).Uint64(), Solo: true, P: map[string]interface{}{"scenarios": sub, "race": tier == "thorough" && (i/per)%3 == 0}, TimeoutS: 600})
	}
	return cases
}

func (p c18) Run(c core.Case) core.Result {
	var r core.Result
	r.Verdict = core.Held
	if c.Engine == "registry" {
		p.registry(&r, c)
		return r
	}
	if c.Engine == "failrace" {
		p.failRace(&r, c)
		return r
	}
	var scns []c18scn
	remarshal(c.P["scenarios"], &scns)
	rng := core.NewRng(c.Seed)
	for _, s := range scns {
		p.scenario(&r, s, rng.Uint64())
		if len(r.Findings) > 6 {
			break
		}
	}
	return r
}

type c18cb struct {
	mu                sync.Mutex
	chans             map[string]*lime.ServerChannel
	est               map[string]int
	fin               map[string]int
	estNotEstablished []string // Established callback for a channel that is not in the established state
	finBefore         []string // finished before established
	handlerPre        []string // handler ran before established callback
}

func (p c18) scenario(r *core.Result, s c18scn, seed uint64) {
	tag := fmt.Sprintf("listeners=%v sessions=%d busy=%v close=%s", s.Listeners, s.Sessions, s.Busy, s.Moment)
	if s.Echo {
		tag += " echo-handlers"
	}
	rng := core.NewRng(seed)
	core.CanaryReset()
	fail := func(k, format string, a ...interface{}) {
		if core.CanaryWorstMS() > 600 {
			r.Verdict = core.Inconclusive
			r.Note = "timing clause under starvation: " + k
			return
		}
		r.Violate("C18/"+k, tag+": "+fmt.Sprintf(format, a...))
	}
	var hookHits int64
	if s.Perturb {
		var hmu sync.Mutex
		hr := core.NewRng(seed ^ 0x18)
		lime.VerifSetPointHandler(func(name string) {
			if !strings.HasPrefix(name, "server.") {
				return
			}
			atomic.AddInt64(&hookHits, 1)
			hmu.Lock()
			k := hr.Intn(10)
			hmu.Unlock()
			switch {
			case k < 4:
				runtime.Gosched()
			case k < 6:
				time.Sleep(time.Duration(100+k*150) * time.Microsecond)
			}
		})
		defer lime.VerifSetPointHandler(nil)
	}
	runtime.GC()
	baseG := len(rig.LimeGoroutines("inProcessTransportListener).newClient"))

	cb := &c18cb{est: map[string]int{}, fin: map[string]int{}, chans: map[string]*lime.ServerChannel{}}
	mux := &lime.EnvelopeMux{}
	onHandler := func(ctx context.Context) {
		id, _ := lime.ContextSessionID(ctx)
		cb.mu.Lock()
		if cb.est[id] == 0 {
			cb.handlerPre = append(cb.handlerPre, id)
		}
		cb.mu.Unlock()
	}
	var echoes, echoErrs int64
	mux.MessageHandlerFunc(nil, func(ctx context.Context, m *lime.Message, sd lime.Sender) error {
		onHandler(ctx)
		if s.Echo && strings.HasPrefix(m.ID, "hold") {
			// this handler is still busy when the server is closed, and answers then - with the context it was given
			<-ctx.Done()
		}
		if s.Echo {
			// an ordinary echo handler: it answers under the context it was given (which the server cancels at Close)
			reply := &lime.Message{}
			reply.ID = "echo-" + m.ID
			reply.SetContent(lime.TextDocument("echo"))
			if err := sd.SendMessage(ctx, reply); err != nil {
				atomic.AddInt64(&echoErrs, 1)
			} else {
				atomic.AddInt64(&echoes, 1)
			}
		}
		return nil
	})
	mux.RequestCommandHandlerFunc(nil, func(ctx context.Context, m *lime.RequestCommand, sd lime.Sender) error {
		onHandler(ctx)
		return nil
	})
	cfg := rig.DefaultServerConfig()
	cfg.ChannelBufferSize = 4
	cfg.Established = func(id string, ch *lime.ServerChannel) {
		st := ch.State()
		cb.mu.Lock()
		cb.est[id]++
		cb.chans[id] = ch
		if st != lime.SessionStateEstablished {
			// nothing in this workload fails or finishes a session from the application's side, and the server
			// finishes it only after this callback has returned
			cb.estNotEstablished = append(cb.estNotEstablished, fmt.Sprintf("%s (state %s, remote node %q)", id, st, ch.RemoteNode().String()))
		}
		cb.mu.Unlock()
	}
	cfg.Finished = func(id string) {
		cb.mu.Lock()
		if cb.est[id] == 0 {
			cb.finBefore = append(cb.finBefore, id)
		}
		cb.fin[id]++
		cb.mu.Unlock()
	}
	cfg.Authenticate = func(ctx context.Context, id lime.Identity, a lime.Authentication) (*lime.AuthenticationResult, error) {
		if strings.HasPrefix(id.Name, "reject") {
			return lime.UnknownAuthenticationResult(), nil
		}
		return lime.MemberAuthenticationResult(), nil
	}
	// listeners: extra TCP listeners are real additional listeners
	var flavours []string
	extraTCP := 0
	for _, l := range s.Listeners {
		if strings.HasPrefix(l, rig.TCP) && l != rig.TCP {
			extraTCP++
			continue
		}
		flavours = append(flavours, l)
	}
	sr, err := rig.StartServerExtra(cfg, mux, flavours, extraTCP)
	if err != nil {
		r.Verdict = core.Inconclusive
		r.Note = err.Error()
		return
	}
	r.Evals++
	r.Count("scenarios", 1)

	type cl struct {
		cc       *lime.ClientChannel
		sid      string
		flavour  string
		finished int32
		done     chan struct{}
	}
	var cmu sync.Mutex
	var clients []*cl
	ctx, cancel := context.WithTimeout(context.Background(), 120*time.Second)
	defer cancel()
	var rejected int64
	var activity int64 // accept/handshake/traffic events overlapping Close
	var closing int32
	dial := func(i int, name string) {
		f := flavours[i%len(flavours)]
		// (a connection accepted by a listener right when it is closed may never be served nor closed; the dialler's
		// own context bounds that wait)
		ectx, ec := context.WithTimeout(ctx, 6*time.Second)
		defer ec()
		cc, _, err := sr.EstablishClientNoLock(ectx, f, 4, 4, lime.Identity{Name: name, Domain: "verif.local"}, "i")
		if atomic.LoadInt32(&closing) == 1 {
			atomic.AddInt64(&activity, 1)
		}
		if err != nil {
			if strings.HasPrefix(name, "reject") {
				atomic.AddInt64(&rejected, 1)
			}
			return
		}
		c := &cl{cc: cc, sid: cc.ID(), flavour: f, done: make(chan struct{})}
		cmu.Lock()
		clients = append(clients, c)
		cmu.Unlock()
		// the client keeps draining and watches for the terminal state
		go func() {
			defer close(c.done)
			for {
				select {
				case <-cc.RcvDone():
					if cc.State() == lime.SessionStateFinished {
						atomic.StoreInt32(&c.finished, 1)
					}
					return
				case <-cc.MsgChan():
				case <-cc.NotChan():
				case <-cc.ReqCmdChan():
				case <-cc.RespCmdChan():
				}
			}
		}()
	}
	var rcount sync.Mutex
	_ = rcount
	// established sessions before Close
	var pre sync.WaitGroup
	for i := 0; i < s.Sessions; i++ {
		pre.Add(1)
		go func(i int) { defer pre.Done(); dial(i, fmt.Sprintf("pre%d", i)) }(i)
	}
	pre.Wait()
	// stalled clients: established, then they stop reading while the server pushes until its sends time out
	type stalledCl struct {
		cc *lime.ClientChannel
		t  lime.Transport
	}
	var stalled []stalledCl
	for i := 0; i < s.Stalled; i++ {
		f := flavours[i%len(flavours)]
		if f == rig.WS {
			f = flavours[0]
		}
		ectx, ec := context.WithTimeout(ctx, 10*time.Second)
		t, err := sr.Dial(ectx, f, 1, nil)
		if err != nil {
			ec()
			continue
		}
		cc := lime.NewClientChannel(t, 0)
		ses, err := cc.EstablishSession(ectx, lime.NoneCompressionSelector, rig.EncryptSelector(f), lime.Identity{Name: fmt.Sprintf("stalled%d", i), Domain: "verif.local"}, lime.GuestAuthenticator, "i")
		ec()
		if err != nil || ses.State != lime.SessionStateEstablished {
			_ = cc.Close()
			continue
		}
		stalled = append(stalled, stalledCl{cc, t})
		// find its server channel and push until the sends time out (nobody reads on the client side)
		var sc *lime.ServerChannel
		for w := 0; w < 200 && sc == nil; w++ {
			cb.mu.Lock()
			sc = cb.chans[cc.ID()]
			cb.mu.Unlock()
			if sc == nil {
				time.Sleep(2 * time.Millisecond)
			}
		}
		if sc != nil {
			timeouts := 0
			for k := 0; k < 400 && timeouts < 2; k++ {
				m := &lime.Message{}
				m.ID = fmt.Sprintf("fill-%d", k)
				m.SetContent(lime.TextDocument(strings.Repeat("f", 64*1024)))
				pctx, pc := context.WithTimeout(context.Background(), 150*time.Millisecond)
				if err := sc.SendMessage(pctx, m); err != nil {
					timeouts++
				}
				pc()
			}
			r.Count("stalled_clients", 1)
			atomic.AddInt64(&activity, 1)
		}
	}
	stopTraffic := make(chan struct{})
	var traffic sync.WaitGroup
	if s.Busy || s.Moment == "traffic" {
		cmu.Lock()
		for _, c := range clients {
			c := c
			traffic.Add(1)
			go func() {
				defer traffic.Done()
				for k := 0; ; k++ {
					select {
					case <-stopTraffic:
						return
					default:
					}
					m := &lime.Message{}
					m.ID = fmt.Sprintf("m%d", k)
					if s.Echo && k == 40 {
						m.ID = "hold" // (every client's 41st message keeps its session's handler busy until Close)
					}
					m.SetContent(lime.TextDocument("x"))
					sctx, sc := context.WithTimeout(context.Background(), 2*time.Second)
					err := c.cc.SendMessage(sctx, m)
					sc()
					if atomic.LoadInt32(&closing) == 1 {
						atomic.AddInt64(&activity, 1)
					}
					if err != nil {
						return
					}
					if k%8 == 7 {
						runtime.Gosched()
					}
				}
			}()
		}
		cmu.Unlock()
	}
	// parked raw clients at handshake stages (TCP / WS only)
	var parked []func()
	var preUpgrade []net.Conn
	if s.Moment == "parked" {
		for i, f := range flavours {
			for stage := 0; stage < 3; stage++ {
				switch f {
				case rig.TCP:
					if conn, err := net.DialTimeout("tcp", sr.Addr(rig.TCP).String(), 2*time.Second); err == nil {
						peer := rig.NewRawPeer(conn)
						if stage >= 1 {
							_ = peer.SendJSON(map[string]interface{}{"state": "new"})
							m, _ := peer.Read(2 * time.Second)
							if stage >= 2 && m != nil && m["state"] == "negotiating" {
								_ = peer.SendJSON(map[string]interface{}{"id": m["id"], "state": "negotiating", "encryption": "none", "compression": "none"})
								_, _ = peer.Read(2 * time.Second)
							}
						}
						parked = append(parked, func() { conn.Close() })
					}
				case rig.WS:
					if stage == 0 {
						// connections the listener's HTTP server still owns: nothing sent yet / half a request
						for _, first := range []string{"", "GET / HTTP/1.1\r\nHost: x\r\nUpgrade: websocket\r\n"} {
							if conn, err := net.DialTimeout("tcp", sr.Addr(rig.WS).String(), 2*time.Second); err == nil {
								if first != "" {
									_, _ = conn.Write([]byte(first))
								}
								preUpgrade = append(preUpgrade, conn)
							}
						}
					}
					d := websocket.Dialer{Subprotocols: []string{"lime"}, HandshakeTimeout: 2 * time.Second}
					if conn, _, err := d.Dial("ws://"+sr.Addr(rig.WS).String(), nil); err == nil {
						if stage >= 1 {
							_ = conn.WriteMessage(websocket.TextMessage, []byte(`{"state":"new"}`))
						}
						parked = append(parked, func() { conn.Close() })
					}
				}
				_ = i
			}
		}
		atomic.AddInt64(&activity, int64(len(parked)))
	}
	// the storm: diallers running while Close happens
	var storm sync.WaitGroup
	if s.Moment == "storm" {
		for i := 0; i < s.Storm; i++ {
			storm.Add(1)
			name := fmt.Sprintf("storm%d", i)
			if i%5 == 4 {
				name = fmt.Sprintf("reject%d", i)
			}
			go func(i int, name string) {
				defer storm.Done()
				for k := 0; k < rng.Intn(3)*20; k++ {
					runtime.Gosched()
				}
				dial(i, name)
			}(i, name)
		}
		// let the storm get going
		for k := 0; k < 50+rng.Intn(400); k++ {
			runtime.Gosched()
		}
	}
	if s.Moment == "traffic" {
		time.Sleep(time.Duration(200+rng.Intn(2000)) * time.Microsecond)
	}

	// ---- Close ---------------------------------------------------------------------------------------------
	atomic.StoreInt32(&closing, 1)
	serveErr, returned := sr.CloseNoLock(15 * time.Second)
	atomic.StoreInt32(&closing, 2)
	if !returned {
		buf := make([]byte, 1<<18)
		n := runtime.Stack(buf, true)
		fail("serve-did-not-return", "ListenAndServe did not return within 15 s after Close")
		r.Log = strings.Split(string(buf[:n]), "\n")
		if len(r.Log) > 250 {
			r.Log = r.Log[:250]
		}
	} else if serveErr != lime.ErrServerClosed {
		fail("serve-error", "ListenAndServe returned %v instead of ErrServerClosed", serveErr)
	} else {
		r.Count("serve_returned_closed", 1)
	}
	storm.Wait()
	close(stopTraffic)
	// every session that a client saw established must be finished by the server
	cmu.Lock()
	cls := append([]*cl{}, clients...)
	cmu.Unlock()
	r.Count("sessions_established", len(cls))
	for _, c := range cls {
		select {
		case <-c.done:
		case <-time.After(15 * time.Second):
		}
		if atomic.LoadInt32(&c.finished) == 1 {
			r.Count("finished_observed", 1)
		} else {
			fail("finished-not-observed/"+c.flavour, "a client over %s that saw its session established (id %s) and keeps draining did not observe a finished session within 15 s after Close (state %s)", c.flavour, c.sid, c.cc.State())
		}
	}
	// listeners are stopped
	for _, f := range flavours {
		switch f {
		case rig.TCP:
			if conn, err := net.DialTimeout("tcp", sr.LastAddr(rig.TCP), 500*time.Millisecond); err == nil {
				_, _ = conn.Write([]byte("{\"state\":\"new\"}\n"))
				_ = conn.SetReadDeadline(time.Now().Add(300 * time.Millisecond))
				buf := make([]byte, 64)
				n, _ := conn.Read(buf)
				conn.Close()
				if n > 0 {
					fail("listener-still-serving/tcp", "a connection dialled after Close was served: %q", buf[:n])
				}
			}
		case rig.InProc:
			if t, err := lime.DialInProcess(sr.InProcAddr, 1); err == nil {
				_ = t.Close()
				fail("listener-still-serving/inproc", "DialInProcess succeeded after Close")
			}
		case rig.WS:
			d := websocket.Dialer{Subprotocols: []string{"lime"}, HandshakeTimeout: 500 * time.Millisecond}
			if conn, _, err := d.Dial("ws://"+sr.LastAddr(rig.WS), nil); err == nil {
				conn.Close()
				fail("listener-still-serving/ws", "a websocket connection dialled after Close was accepted")
			}
		}
	}
	// a connection that the WebSocket listener's HTTP server had accepted but not upgraded yet is served by a goroutine
	// of that server for as long as it stays open: Close has to end it
	for i, conn := range preUpgrade {
		_ = conn.SetReadDeadline(time.Now().Add(5 * time.Second))
		buf := make([]byte, 256)
		_, err := conn.Read(buf)
		if ne, ok := err.(net.Error); ok && ne.Timeout() {
			fail("connection-left-open/ws", "a connection accepted by the WebSocket listener before Close (#%d, not upgraded yet) is still open and served 5 s after Close", i)
		} else {
			r.Count("pre_upgrade_connections_closed", 1)
		}
		_ = conn.Close()
	}
	for _, p := range parked {
		p()
	}
	traffic.Wait()
	for _, c := range cls {
		_ = c.cc.Close()
	}
	// the stalled clients stay connected until the server has wound their sessions down (its finish has a 1 s
	// send timeout); a client that disconnects first would legitimately leave the server channel 'established'
	for _, sc := range stalled {
		cb.mu.Lock()
		ch := cb.chans[sc.cc.ID()]
		cb.mu.Unlock()
		deadline := time.Now().Add(6 * time.Second)
		for ch != nil && time.Now().Before(deadline) {
			if st := ch.State(); st == lime.SessionStateFinished || st == lime.SessionStateFailed {
				break
			}
			time.Sleep(5 * time.Millisecond)
		}
	}
	for _, sc := range stalled {
		// (a TCP channel whose receiver was never started closes at once; no draining is attempted)
		_ = sc.t.Close()
		_ = sc.cc.Close()
	}
	if atomic.LoadInt64(&activity) > 0 {
		r.Count("close_overlapped_activity", 1)
		r.Fingerprints = append(r.Fingerprints, fmt.Sprintf("%v|%d|%v|%s|%d", s.Listeners, s.Sessions, s.Busy, s.Moment, seed%10000))
	}
	// census
	left := rig.WaitLimeGoroutines(baseG, 12*time.Second, "inProcessTransportListener).newClient")
	if len(left) > baseG {
		fail("goroutines-left", "%d lime-owned goroutines before the server started, %d after Close settled: %v", baseG, len(left), rig.Sites(left))
		if len(r.Log) == 0 {
			for _, g := range left {
				r.Log = append(r.Log, strings.Split(g.Raw, "\n")...)
			}
		}
	} else {
		r.Count("census_clean", 1)
	}
	// callbacks
	time.Sleep(10 * time.Millisecond)
	cb.mu.Lock()
	seen := map[string]bool{}
	for _, sc := range stalled {
		seen[sc.cc.ID()] = true
	}
	for _, c := range cls {
		seen[c.sid] = true
		if cb.est[c.sid] != 1 {
			fail("established-callback-count", "session %s was seen established by its client; the Established callback fired %d times", c.sid, cb.est[c.sid])
		}
	}
	for id, n := range cb.est {
		if n != 1 {
			fail("established-callback-count", "the Established callback fired %d times for session %s", n, id)
		}
		if !seen[id] {
			// the client may have given up (context) right at establishment: tolerated only if its dial reported an error
			r.Count("established_unseen_by_client", 1)
		}
		if cb.fin[id] != 1 {
			fail("finished-callback-count", "session %s: Established fired once, Finished fired %d times", id, cb.fin[id])
		}
	}
	for id, ch := range cb.chans {
		if st := ch.State(); st != lime.SessionStateFinished && st != lime.SessionStateFailed {
			fail("session-not-finished", "after Close settled the server channel of session %s (Established and Finished callbacks: %d/%d) is still in state %s", id, cb.est[id], cb.fin[id], st)
		}
	}
	if len(cb.estNotEstablished) > 0 {
		fail("established-callback-for-unestablished", "the Established callback fired for sessions that are not established: %v", cb.estNotEstablished)
	}
	for id, n := range cb.fin {
		if cb.est[id] == 0 {
			fail("finished-without-established", "the Finished callback fired %d times for session %s, which never had an Established callback", n, id)
		}
	}
	if len(cb.finBefore) > 0 {
		fail("finished-before-established", "Finished fired before Established for %v", cb.finBefore)
	}
	if len(cb.handlerPre) > 0 {
		fail("handler-before-established", "a handler ran before the Established callback for sessions %v", cb.handlerPre)
	}
	cb.mu.Unlock()
	r.Count("echo_replies", int(atomic.LoadInt64(&echoes)))
	r.Count("echo_reply_errors", int(atomic.LoadInt64(&echoErrs)))
	r.Count("hook_hits", int(atomic.LoadInt64(&hookHits)))
	r.Count("failed_handshakes_mixed", int(atomic.LoadInt64(&rejected)))
	if r.Sample == nil {
		r.Sample = map[string]interface{}{"scenario": s, "sessions_established": len(cls), "serve_error": fmt.Sprint(serveErr), "goroutines_before": baseG, "goroutines_after": len(left)}
	}
}

// registry: clients keep dialling the in-process address while servers on it are started and closed over and over;
// the process must survive (the child's death is attributed to this case by the parent).
// failRace: the application fails its sessions at the very moment the server is closed (the server's own finish of
// each session races with the application's FailSession). Nothing may panic; the serve call returns the closed error;
// every session gets exactly one Established and one Finished callback.
func (p c18) failRace(r *core.Result, c core.Case) {
	rng := core.NewRng(c.Seed)
	for round := 0; round < c.Int("rounds", 100); round++ {
		var mu sync.Mutex
		chans := []*lime.ServerChannel{}
		est, fin := map[string]int{}, map[string]int{}
		cfg := rig.DefaultServerConfig()
		cfg.ChannelBufferSize = 2
		cfg.Established = func(id string, ch *lime.ServerChannel) {
			mu.Lock()
			chans = append(chans, ch)
			est[id]++
			mu.Unlock()
		}
		cfg.Finished = func(id string) {
			mu.Lock()
			fin[id]++
			mu.Unlock()
		}
		flavours := []string{rig.InProc}
		if round%4 == 3 {
			flavours = []string{rig.InProc, rig.TCP}
		}
		sr, err := rig.StartServer(cfg, nil, flavours, 0)
		if err != nil {
			r.Verdict = core.Inconclusive
			r.Note = err.Error()
			return
		}
		ctx, cancel := context.WithTimeout(context.Background(), 30*time.Second)
		n := 1 + rng.Intn(4)
		var clients []*lime.ClientChannel
		for i := 0; i < n; i++ {
			cc, _, err := sr.EstablishClient(ctx, flavours[i%len(flavours)], 2, 2, lime.Identity{Name: fmt.Sprintf("fr%d", i), Domain: "verif.local"}, "i")
			if err == nil {
				clients = append(clients, cc)
				go func() {
					for range cc.MsgChan() {
					}
				}()
			}
		}
		// wait for the callbacks of the sessions the clients saw
		for k := 0; k < 2000; k++ {
			mu.Lock()
			got := len(chans)
			mu.Unlock()
			if got >= len(clients) {
				break
			}
			time.Sleep(time.Millisecond)
		}
		mu.Lock()
		scs := append([]*lime.ServerChannel{}, chans...)
		mu.Unlock()
		var wg sync.WaitGroup
		start := make(chan struct{})
		for _, sc := range scs {
			wg.Add(1)
			go func(sc *lime.ServerChannel) {
				defer wg.Done()
				<-start
				for k := rng.Intn(3); k > 0; k-- {
					runtime.Gosched()
				}
				fctx, fc := context.WithTimeout(context.Background(), 5*time.Second)
				_ = sc.FailSession(fctx, &lime.Reason{Code: 9, Description: "application"})
				fc()
			}(sc)
		}
		close(start)
		t0 := time.Now()
		serveErr, ok := sr.Close(15 * time.Second)
		tClose := time.Since(t0)
		wg.Wait()
		cancel()
		if os.Getenv("VERIF_DEBUG_TIMES") != "" {
			fmt.Fprintf(os.Stderr, "failrace round %d: close %v total-after-close %v\n", round, tClose, time.Since(t0))
		}
		r.Evals++
		r.Count("scenarios", 1)
		r.Count("failrace_rounds", 1)
		r.Count("failrace_sessions", len(scs))
		if !ok {
			r.Violate("C18/serve-did-not-return", fmt.Sprintf("fail race round %d: ListenAndServe did not return within 15 s after Close while the application was failing %d sessions", round, len(scs)))
			return
		}
		if serveErr != lime.ErrServerClosed {
			r.Violate("C18/serve-error", fmt.Sprintf("fail race round %d: ListenAndServe returned %v instead of ErrServerClosed", round, serveErr))
		} else {
			r.Count("serve_returned_closed", 1)
		}
		for _, cc := range clients {
			_ = cc.Close()
		}
		time.Sleep(2 * time.Millisecond)
		mu.Lock()
		for id, e := range est {
			if e != 1 || fin[id] > 1 {
				r.Violate("C18/finished-callback-count", fmt.Sprintf("fail race round %d: session %s got %d Established and %d Finished callbacks", round, id, e, fin[id]))
			}
		}
		mu.Unlock()
		if len(r.Findings) > 3 {
			return
		}
	}
	r.Fingerprints = append(r.Fingerprints, fmt.Sprintf("failrace|%d", c.Seed%10000))
}

func (p c18) registry(r *core.Result, c core.Case) {
	addrs := []lime.InProcessAddr{rig.NewInProcAddr(), rig.NewInProcAddr()}
	stop := make(chan struct{})
	var wg sync.WaitGroup
	var dials int64
	for g := 0; g < 12; g++ {
		wg.Add(1)
		go func(g int) {
			defer wg.Done()
			for {
				select {
				case <-stop:
					return
				default:
				}
				if t, err := lime.DialInProcess(addrs[g%2], 1); err == nil {
					_ = t.Close()
				}
				atomic.AddInt64(&dials, 1)
			}
		}(g)
	}
	cycles := 0
	for i := 0; i < 150; i++ {
		for _, a := range addrs {
			cfg := rig.DefaultServerConfig()
			srv := lime.NewServer(cfg, &lime.EnvelopeMux{}, lime.NewBoundListener(lime.NewInProcessTransportListener(a), a))
			done := make(chan error, 1)
			go func() { done <- srv.ListenAndServe() }()
			// serving is observable once a dial on the address is accepted (Close before that is not generated)
			for k := 0; k < 100000; k++ {
				if t, err := lime.DialInProcess(a, 1); err == nil {
					_ = t.Close()
					break
				}
				runtime.Gosched()
			}
			for k := 0; k < 50; k++ {
				runtime.Gosched()
			}
			_ = srv.Close()
			select {
			case <-done:
			case <-time.After(15 * time.Second):
				r.Violate("C18/serve-did-not-return/registry", "ListenAndServe did not return within 15 s after Close while clients keep dialling in-process")
				close(stop)
				return
			}
			cycles++
		}
	}
	close(stop)
	wg.Wait()
	r.Evals = cycles
	r.Count("registry_cycles", cycles)
	r.Count("registry_dials", int(atomic.LoadInt64(&dials)))
	r.NonTrivial = true
	r.Fingerprint = "inproc-registry"
	r.Sample = map[string]interface{}{"engine": "in-process registry stress", "start_close_cycles": cycles, "concurrent_dials": atomic.LoadInt64(&dials)}
}
