package props

import (
	"context"
	"encoding/json"
	"fmt"
	"net"
	"strings"
	"sync"
	"sync/atomic"
	"time"

	lime "github.com/takenet/lime-go"

	"verif/harness/internal/core"
	"verif/harness/internal/faultconn"
	"verif/harness/internal/rig"
)

// C06 — Data envelopes flow only while the session is established.
type c06 struct{}

func init() { core.Register(c06{}) }

func (c06) ID() string                  { return "C06" }
func (c06) Level() string               { return "exploration" }
func (c06) ChildParallel() int          { return 4 }
func (c06) Exhaustive(tier string) bool { return true }
func (c06) Rule() string {
	return "Send direction: both roles (real ClientChannel / ServerChannel) are driven by a scripted peer that holds the handshake at a stage {new, negotiating-offered, negotiating-confirmed (client), authenticating, round-trip, established (positive control), finishing, finished (requested and unsolicited), failed (during handshake and while established), peer closed} and each of the five send operations is invoked; transports: tapped in-memory TCP (raw JSON peer), in-process and WebSocket (typed peer). The matrix role x stage x operation x transport is enumerated completely in both tiers. " +
		"Oracle: outside 'established' (and the 'finishing'/'peer closed' stages, where either outcome is allowed but must be consistent) the call returns an error and the peer observes no non-session envelope; afterwards the handshake continues unaffected; at 'established' the call succeeds and the envelope is observed. " +
		"Receive direction: a data envelope injected by the peer at each stage of the client's handshake must fail EstablishSession without any inbound-stream event; the server side is covered by the handshake explorer (every position of a data envelope in the client scripts: no handler event, handshake aborted). " +
		"Non-trivial = every cell except the established positive controls; distinct = (role, stage, operation, transport)."
}
func (c06) Assumptions() []string {
	return []string{"calls overlapping a state change may go either way (not generated: stages are held)", "bounded wait (2 s) for an unsolicited terminal envelope to be processed before the sends are tried"}
}
func (c06) Floors(tier string) map[string]int {
	return map[string]int{"cells": 250, "ops_rejected": 150, "ops_accepted_established": 30, "client_injections": 12, "runs": 500}
}

var c06clientStages = []string{"new", "negotiating-offered", "negotiating-confirmed", "authenticating", "round-trip", "established", "finishing", "finished", "finished-unsolicited", "failed-handshake", "failed-unsolicited", "peer-closed"}
var c06serverStages = []string{"new", "negotiating-offered", "authenticating", "round-trip", "established", "finishing", "finished", "failed-handshake", "failed", "peer-closed"}
var c06ops = []string{"SendMessage", "SendNotification", "SendRequestCommand", "SendResponseCommand", "ProcessCommand"}

func (c06) Plan(tier string, seed uint64) []core.Case {
	var cases []core.Case
	for _, tr := range []string{"faulttcp", rig.InProc, rig.WS} {
		for _, st := range c06clientStages {
			cases = append(cases, core.Case{ID: fmt.Sprintf("C06/client/%s/%s", tr, st), Engine: "matrix", P: map[string]interface{}{"role": "client", "stage": st, "transport": tr}, TimeoutS: 120})
		}
		for _, st := range c06serverStages {
			cases = append(cases, core.Case{ID: fmt.Sprintf("C06/server/%s/%s", tr, st), Engine: "matrix", P: map[string]interface{}{"role": "server", "stage": st, "transport": tr}, TimeoutS: 120})
		}
		for _, st := range []string{"negotiating-offered", "negotiating-confirmed", "authenticating", "round-trip"} {
			cases = append(cases, core.Case{ID: fmt.Sprintf("C06/client-inject/%s/%s", tr, st), Engine: "inject", P: map[string]interface{}{"stage": st, "transport": tr}, TimeoutS: 120})
		}
	}
	// a data send that has passed the channel's state check when the session ends, and reaches the transport afterwards
	cases = append(cases, core.Case{ID: "C06/latesend", Engine: "latesend", Solo: true, P: map[string]interface{}{"rounds": 6}, TimeoutS: 300})
	cfgs := hsConfigs("quick")
	if tier == "thorough" {
		cfgs = hsConfigs("thorough")[:24]
	}
	for _, c := range explorerCases("C06", tier, seed, cfgs) {
		cases = append(cases, c)
	}
	return cases
}

// c06peer is the scripted peer: raw JSON over a tapped connection, or typed over a real transport.
type c06peer interface {
	Send(m map[string]interface{}) error
	Recv(timeout time.Duration) (map[string]interface{}, error)
	Close()
}

type rawPeer struct{ p *rig.RawPeer }

func (r rawPeer) Send(m map[string]interface{}) error { return r.p.SendJSON(m) }
func (r rawPeer) Recv(t time.Duration) (map[string]interface{}, error) {
	return r.p.Read(t)
}
func (r rawPeer) Close() { r.p.Close() }

// typedPeer reads through a pump goroutine: a receive context that expires would poison a WebSocket transport.
type typedPeer struct {
	smu  sync.Mutex // a lime.Transport is not safe for concurrent Sends (the channel's send mutex provides that)
	t    lime.Transport
	ch   chan map[string]interface{}
	errc chan error
	stop context.CancelFunc
}

func newTypedPeer(t lime.Transport) *typedPeer {
	ctx, cancel := context.WithCancel(context.Background())
	p := &typedPeer{t: t, ch: make(chan map[string]interface{}, 64), errc: make(chan error, 1), stop: cancel}
	go func() {
		for {
			e, err := t.Receive(ctx)
			if err != nil {
				p.errc <- err
				close(p.ch)
				return
			}
			b, _ := json.Marshal(e)
			var m map[string]interface{}
			_ = json.Unmarshal(b, &m)
			p.ch <- m
		}
	}()
	return p
}

func (p *typedPeer) Send(m map[string]interface{}) error {
	b, _ := json.Marshal(m)
	v, err := c01typedDecodeAny(b)
	if err != nil {
		return err
	}
	ctx, cancel := context.WithTimeout(context.Background(), 5*time.Second)
	defer cancel()
	p.smu.Lock()
	defer p.smu.Unlock()
	return sendAny(ctx, p.t, v)
}
func (p *typedPeer) Recv(t time.Duration) (map[string]interface{}, error) {
	select {
	case m, ok := <-p.ch:
		if !ok {
			return nil, fmt.Errorf("typed peer: transport ended")
		}
		return m, nil
	case <-time.After(t):
		return nil, rig.ErrPeerTimeout
	}
}
func (p *typedPeer) Close() {
	_ = p.t.Close()
	p.stop()
}

// c06link builds the library-side transport and the peer for a transport flavour.
func c06link(flavour string, libIsServer bool) (lib lime.Transport, peer c06peer, cleanup func(), err error) {
	switch flavour {
	case "faulttcp":
		ca, cb := faultconn.Pair(faultconn.Options{})
		if libIsServer {
			return lime.VerifNewTCPTransport(cb, true, nil), rawPeer{rig.NewRawPeer(ca)}, func() {}, nil
		}
		return lime.VerifNewTCPTransport(ca, false, nil), rawPeer{rig.NewRawPeer(cb)}, func() {}, nil
	case rig.InProc:
		addr := rig.NewInProcAddr()
		l := lime.NewInProcessTransportListener(addr)
		if err := l.Listen(context.Background(), addr); err != nil {
			return nil, nil, nil, err
		}
		ct, err := lime.DialInProcess(addr, 8)
		if err != nil {
			return nil, nil, nil, err
		}
		ctx, cancel := context.WithTimeout(context.Background(), 5*time.Second)
		st, err := l.Accept(ctx)
		cancel()
		if err != nil {
			return nil, nil, nil, err
		}
		cl := func() { _ = l.Close() }
		if libIsServer {
			return st, newTypedPeer(ct), cl, nil
		}
		return ct, newTypedPeer(st), cl, nil
	case rig.WS:
		ws, err := rig.NewWSRaw(false)
		if err != nil {
			return nil, nil, nil, err
		}
		type acc struct {
			t   lime.Transport
			err error
		}
		ch := make(chan acc, 1)
		go func() {
			ctx, cancel := context.WithTimeout(context.Background(), 10*time.Second)
			defer cancel()
			t, err := ws.L.Accept(ctx)
			ch <- acc{t, err}
		}()
		ctx, cancel := context.WithTimeout(context.Background(), 10*time.Second)
		ct, err := lime.DialWebsocket(ctx, ws.URL(), nil, nil)
		cancel()
		if err != nil {
			ws.Close()
			return nil, nil, nil, err
		}
		a := <-ch
		if a.err != nil {
			ws.Close()
			return nil, nil, nil, a.err
		}
		if libIsServer {
			return a.t, newTypedPeer(ct), ws.Close, nil
		}
		return ct, newTypedPeer(a.t), ws.Close, nil
	}
	return nil, nil, nil, fmt.Errorf("unknown transport %s", flavour)
}

type c06sender interface {
	SendMessage(ctx context.Context, msg *lime.Message) error
	SendNotification(ctx context.Context, not *lime.Notification) error
	SendRequestCommand(ctx context.Context, cmd *lime.RequestCommand) error
	SendResponseCommand(ctx context.Context, cmd *lime.ResponseCommand) error
	ProcessCommand(ctx context.Context, cmd *lime.RequestCommand) (*lime.ResponseCommand, error)
}

func c06doOp(ch c06sender, op string, tok string) error {
	ctx, cancel := context.WithTimeout(context.Background(), 400*time.Millisecond)
	defer cancel()
	switch op {
	case "SendMessage":
		m := &lime.Message{}
		m.ID = tok
		m.SetContent(lime.TextDocument("x"))
		return ch.SendMessage(ctx, m)
	case "SendNotification":
		n := &lime.Notification{Event: lime.NotificationEventReceived}
		n.ID = tok
		return ch.SendNotification(ctx, n)
	case "SendRequestCommand":
		c := &lime.RequestCommand{}
		c.ID = tok
		c.Method = lime.CommandMethodGet
		c.SetURIString("/ping")
		return ch.SendRequestCommand(ctx, c)
	case "SendResponseCommand":
		c := &lime.ResponseCommand{Status: lime.CommandStatusSuccess}
		c.ID = tok
		c.Method = lime.CommandMethodGet
		return ch.SendResponseCommand(ctx, c)
	default:
		c := &lime.RequestCommand{}
		c.ID = tok
		c.Method = lime.CommandMethodGet
		c.SetURIString("/ping")
		_, err := ch.ProcessCommand(ctx, c)
		return err
	}
}

const c06srvNode = "postmaster@verif.local/srv"

func (p c06) Run(c core.Case) core.Result {
	var r core.Result
	r.Verdict = core.Held
	switch c.Engine {
	case "matrix":
		if c.Str("role", "") == "client" {
			p.clientCell(&r, c)
		} else {
			p.serverCell(&r, c)
		}
	case "inject":
		p.clientInject(&r, c)
	case "latesend":
		p.lateSend(&r, c)
	default:
		runExplorerCase(&r, []string{"C06"}, c)
	}
	return r
}

// drainData reads from the peer until quiet and returns the non-session envelopes seen.
func c06drain(peer c06peer, quiet time.Duration) (data []map[string]interface{}, sessions []map[string]interface{}, closed bool) {
	for {
		m, err := peer.Recv(quiet)
		if err == rig.ErrPeerTimeout {
			return
		}
		if err != nil {
			closed = true
			return
		}
		if _, ok := m["state"]; ok {
			sessions = append(sessions, m)
		} else {
			data = append(data, m)
		}
	}
}

// judgeOps runs the five operations at a held stage and applies the oracle.
func (p c06) judgeOps(r *core.Result, ch c06sender, peer c06peer, role, stage, transport string, mode string) {
	// mode: "reject" (must fail, nothing on the wire), "accept" (must succeed and be observed), "either" (consistent)
	for _, op := range c06ops {
		tok := fmt.Sprintf("tok-%s-%s-%s", role, stage, op)
		err := c06doOp(ch, op, tok)
		data, _, _ := c06drain(peer, 60*time.Millisecond)
		seen := false
		for _, d := range data {
			if d["id"] == tok {
				seen = true
			}
		}
		r.Evals++
		r.Count("cells", 1)
		cell := fmt.Sprintf("%s|%s|%s|%s", role, stage, op, transport)
		if mode != "accept" {
			r.Fingerprints = append(r.Fingerprints, cell)
		}
		switch mode {
		case "reject":
			if err == nil {
				r.Violate("C06/send-accepted/"+role+"/"+stage+"/"+op, fmt.Sprintf("%s channel at stage %q over %s: %s returned nil", role, stage, transport, op))
			} else {
				r.Count("ops_rejected", 1)
			}
			if seen || len(data) > 0 {
				r.Violate("C06/data-on-wire/"+role+"/"+stage+"/"+op, fmt.Sprintf("%s channel at stage %q over %s: %s put a data envelope on the wire: %v", role, stage, transport, op, data))
			}
		case "accept":
			ok := err == nil || (op == "ProcessCommand" && seen)
			if !ok {
				r.Violate("C06/send-refused-while-established/"+role+"/"+op, fmt.Sprintf("%s channel established over %s: %s failed: %v", role, transport, op, err))
			} else if !seen {
				r.Violate("C06/not-on-wire-while-established/"+role+"/"+op, fmt.Sprintf("%s channel established over %s: %s returned nil but the peer did not observe the envelope", role, transport, op))
			} else {
				r.Count("ops_accepted_established", 1)
			}
		default:
			if err == nil && !seen && op != "ProcessCommand" {
				r.Violate("C06/inconsistent/"+role+"/"+stage+"/"+op, fmt.Sprintf("%s channel at stage %q over %s: %s returned nil but nothing reached the peer", role, stage, transport, op))
			}
			r.Count("ops_either", 1)
		}
	}
}

func (p c06) clientCell(r *core.Result, c core.Case) {
	stage, transport := c.Str("stage", ""), c.Str("transport", "")
	lib, peer, cleanup, err := c06link(transport, false)
	if err != nil {
		r.Verdict = core.Inconclusive
		r.Note = err.Error()
		return
	}
	defer cleanup()
	r.Count("runs", 1)
	cc := lime.NewClientChannel(lib, 4)
	defer cc.Close()
	defer peer.Close() // first the peer, so that the channel's receiver ends without waiting out its read poll
	if stage == "new" {
		p.judgeOps(r, cc, peer, "client", stage, transport, "reject")
		return
	}
	type estRes struct {
		ses *lime.Session
		err error
	}
	done := make(chan estRes, 1)
	rounds := 0
	go func() {
		ctx, cancel := context.WithTimeout(context.Background(), 30*time.Second)
		defer cancel()
		s, err := cc.EstablishSession(ctx, lime.NoneCompressionSelector, lime.NoneEncryptionSelector, lime.Identity{Name: "cli", Domain: "verif.local"},
			func(s []lime.AuthenticationScheme, rt lime.Authentication) lime.Authentication {
				rounds++
				return &lime.GuestAuthentication{}
			}, "i")
		done <- estRes{s, err}
	}()
	sid := "sess-1"
	srv := func(m map[string]interface{}) {
		m["id"] = sid
		m["from"] = c06srvNode
		_ = peer.Send(m)
	}
	expect := func(state string) bool {
		m, err := peer.Recv(5 * time.Second)
		if err != nil || m["state"] != state {
			r.Violate("C06/harness/client-handshake", fmt.Sprintf("stage %s over %s: expected client %s envelope, got %v %v", stage, transport, state, m, err))
			return false
		}
		return true
	}
	if !expect("new") {
		return
	}
	usesNeg := stage == "negotiating-offered" || stage == "negotiating-confirmed"
	if usesNeg {
		srv(map[string]interface{}{"state": "negotiating", "encryptionOptions": []string{"none"}, "compressionOptions": []string{"none"}})
		if !expect("negotiating") {
			return
		}
		if stage == "negotiating-offered" {
			p.judgeOps(r, cc, peer, "client", stage, transport, "reject")
			// continue the handshake: it must be unaffected
			srv(map[string]interface{}{"state": "negotiating", "encryption": "none", "compression": "none"})
		} else {
			srv(map[string]interface{}{"state": "negotiating", "encryption": "none", "compression": "none"})
			time.Sleep(20 * time.Millisecond)
			p.judgeOps(r, cc, peer, "client", stage, transport, "reject")
		}
	}
	if stage == "failed-handshake" {
		srv(map[string]interface{}{"state": "failed", "reason": map[string]interface{}{"code": 1, "description": "no"}})
		<-done
		p.judgeOps(r, cc, peer, "client", stage, transport, "reject")
		return
	}
	srv(map[string]interface{}{"state": "authenticating", "schemeOptions": []string{"guest"}})
	if !expect("authenticating") {
		return
	}
	if stage == "authenticating" {
		p.judgeOps(r, cc, peer, "client", stage, transport, "reject")
	}
	if stage == "round-trip" {
		srv(map[string]interface{}{"state": "authenticating", "scheme": "plain", "authentication": map[string]interface{}{"password": "cnQ="}})
		if !expect("authenticating") {
			return
		}
		p.judgeOps(r, cc, peer, "client", stage, transport, "reject")
	}
	srv(map[string]interface{}{"state": "established", "to": "cli@verif.local/i"})
	select {
	case res := <-done:
		if res.err != nil || res.ses == nil || res.ses.State != lime.SessionStateEstablished {
			r.Violate("C06/handshake-disturbed/client/"+stage, fmt.Sprintf("after rejected sends at stage %s over %s the client handshake did not complete: %v %+v", stage, transport, res.err, res.ses))
			return
		}
	case <-time.After(10 * time.Second):
		r.Violate("C06/handshake-disturbed/client/"+stage, fmt.Sprintf("after rejected sends at stage %s over %s EstablishSession did not return", stage, transport))
		return
	}
	go func() {
		for range cc.MsgChan() {
		}
	}()
	switch stage {
	case "established", "negotiating-offered", "negotiating-confirmed", "authenticating", "round-trip":
		// positive control (also after the earlier rejected sends)
		p.judgeOps(r, cc, peer, "client", "established", transport, "accept")
	case "finishing":
		fin := make(chan error, 1)
		go func() {
			ctx, cancel := context.WithTimeout(context.Background(), 10*time.Second)
			defer cancel()
			_, err := cc.FinishSession(ctx)
			fin <- err
		}()
		if !expect("finishing") {
			return
		}
		p.judgeOps(r, cc, peer, "client", stage, transport, "either")
		srv(map[string]interface{}{"state": "finished"})
		<-fin
	case "finished":
		fin := make(chan error, 1)
		go func() {
			ctx, cancel := context.WithTimeout(context.Background(), 10*time.Second)
			defer cancel()
			_, err := cc.FinishSession(ctx)
			fin <- err
		}()
		if !expect("finishing") {
			return
		}
		srv(map[string]interface{}{"state": "finished"})
		<-fin
		p.judgeOps(r, cc, peer, "client", stage, transport, "reject")
	case "finished-unsolicited", "failed-unsolicited":
		st := "finished"
		m := map[string]interface{}{"state": st}
		if stage == "failed-unsolicited" {
			st = "failed"
			m = map[string]interface{}{"state": st, "reason": map[string]interface{}{"code": 9, "description": "bye"}}
		}
		srv(m)
		// the client's receiver needs a moment to process it; bounded wait, then the sends are tried regardless
		deadline := time.Now().Add(2 * time.Second)
		for time.Now().Before(deadline) && string(cc.State()) != st {
			time.Sleep(2 * time.Millisecond)
		}
		p.judgeOps(r, cc, peer, "client", stage, transport, "reject")
	case "peer-closed":
		peer.Close()
		time.Sleep(30 * time.Millisecond)
		for _, op := range c06ops {
			_ = c06doOp(cc, op, "tok-closed-"+op)
			r.Evals++
			r.Count("cells", 1)
			r.Count("ops_either", 1)
			r.Fingerprints = append(r.Fingerprints, fmt.Sprintf("client|peer-closed|%s|%s", op, transport))
		}
	}
	if r.Sample == nil {
		r.Sample = map[string]interface{}{"role": "client", "stage": stage, "transport": transport, "operations": c06ops}
	}
}

func (p c06) serverCell(r *core.Result, c core.Case) {
	stage, transport := c.Str("stage", ""), c.Str("transport", "")
	lib, peer, cleanup, err := c06link(transport, true)
	if err != nil {
		r.Verdict = core.Inconclusive
		r.Note = err.Error()
		return
	}
	defer cleanup()
	r.Count("runs", 1)
	sc := lime.NewServerChannel(lib, 4, lime.ParseNode(c06srvNode), "srv-sess-1")
	defer sc.Close()
	defer peer.Close()
	if stage == "round-trip" && transport == rig.WS {
		// the server's round-trip envelope (authentication without scheme) cannot be decoded by a lime peer transport
		// (observation recorded in DESIGN.md); the raw-JSON peer of the faulttcp transport covers this stage
		r.Count("cells_not_applicable", 1)
		return
	}
	encs := []lime.SessionEncryption{lime.SessionEncryptionNone}
	if stage == "negotiating-offered" && transport == "faulttcp" {
		encs = []lime.SessionEncryption{lime.SessionEncryptionNone, lime.SessionEncryptionTLS}
	}
	var mu sync.Mutex
	authCalls := 0
	done := make(chan error, 1)
	go func() {
		ctx, cancel := context.WithTimeout(context.Background(), 30*time.Second)
		defer cancel()
		done <- sc.EstablishSession(ctx, []lime.SessionCompression{lime.SessionCompressionNone}, encs, []lime.AuthenticationScheme{lime.AuthenticationSchemeGuest},
			func(ctx context.Context, id lime.Identity, a lime.Authentication) (*lime.AuthenticationResult, error) {
				mu.Lock()
				authCalls++
				n := authCalls
				mu.Unlock()
				if stage == "round-trip" && n == 1 {
					return &lime.AuthenticationResult{Role: lime.DomainRoleUnknown, RoundTrip: &lime.PlainAuthentication{Password: "cnQ="}}, nil
				}
				return lime.MemberAuthenticationResult(), nil
			},
			func(ctx context.Context, n lime.Node, ch *lime.ServerChannel) (lime.Node, error) {
				return lime.Node{Identity: lime.Identity{Name: "cli", Domain: "verif.local"}, Instance: "i"}, nil
			})
	}()
	expect := func(state string) map[string]interface{} {
		m, err := peer.Recv(5 * time.Second)
		if err != nil || m["state"] != state {
			r.Violate("C06/harness/server-handshake", fmt.Sprintf("stage %s over %s: expected server %s envelope, got %v %v", stage, transport, state, m, err))
			return nil
		}
		return m
	}
	if stage == "new" {
		time.Sleep(10 * time.Millisecond)
		p.judgeOps(r, sc, peer, "server", stage, transport, "reject")
	}
	_ = peer.Send(map[string]interface{}{"state": "new"})
	if stage == "failed-handshake" {
		// wrong id in the authenticating answer
		if expect("authenticating") == nil {
			return
		}
		_ = peer.Send(map[string]interface{}{"state": "authenticating", "id": "wrong", "from": "cli@verif.local/i", "scheme": "guest", "authentication": map[string]interface{}{}})
		expect("failed")
		<-done
		p.judgeOps(r, sc, peer, "server", stage, transport, "reject")
		return
	}
	if len(encs) > 1 {
		if expect("negotiating") == nil {
			return
		}
		p.judgeOps(r, sc, peer, "server", stage, transport, "reject")
		_ = peer.Send(map[string]interface{}{"state": "negotiating", "id": "srv-sess-1", "encryption": "none", "compression": "none"})
		if expect("negotiating") == nil {
			return
		}
	} else if stage == "negotiating-offered" {
		// no negotiation on this transport: nothing to hold
		r.Count("cells_not_applicable", 1)
	}
	if expect("authenticating") == nil {
		return
	}
	if stage == "authenticating" {
		p.judgeOps(r, sc, peer, "server", stage, transport, "reject")
	}
	auth := map[string]interface{}{"state": "authenticating", "id": "srv-sess-1", "from": "cli@verif.local/i", "scheme": "guest", "authentication": map[string]interface{}{}}
	_ = peer.Send(auth)
	if stage == "round-trip" {
		if expect("authenticating") == nil {
			return
		}
		p.judgeOps(r, sc, peer, "server", stage, transport, "reject")
		_ = peer.Send(auth)
	}
	if expect("established") == nil {
		return
	}
	select {
	case err := <-done:
		if err != nil {
			r.Violate("C06/handshake-disturbed/server/"+stage, fmt.Sprintf("after rejected sends at stage %s over %s the server handshake failed: %v", stage, transport, err))
			return
		}
	case <-time.After(10 * time.Second):
		r.Violate("C06/handshake-disturbed/server/"+stage, "EstablishSession did not return")
		return
	}
	go func() {
		for range sc.MsgChan() {
		}
	}()
	switch stage {
	case "new", "negotiating-offered", "authenticating", "round-trip", "established":
		p.judgeOps(r, sc, peer, "server", "established", transport, "accept")
	case "finishing":
		_ = peer.Send(map[string]interface{}{"state": "finishing", "id": "srv-sess-1"})
		time.Sleep(30 * time.Millisecond)
		p.judgeOps(r, sc, peer, "server", stage, transport, "either")
	case "finished":
		ctx, cancel := context.WithTimeout(context.Background(), 10*time.Second)
		_ = peer.Send(map[string]interface{}{"state": "finishing", "id": "srv-sess-1"})
		time.Sleep(20 * time.Millisecond)
		_ = sc.FinishSession(ctx)
		cancel()
		c06drain(peer, 50*time.Millisecond)
		p.judgeOps(r, sc, peer, "server", stage, transport, "reject")
	case "failed":
		ctx, cancel := context.WithTimeout(context.Background(), 10*time.Second)
		go func() {
			// keep the peer reading so that the failed envelope can be written on unbuffered transports
			c06drain(peer, 300*time.Millisecond)
		}()
		_ = sc.FailSession(ctx, &lime.Reason{Code: 3, Description: "x"})
		cancel()
		time.Sleep(350 * time.Millisecond)
		p.judgeOps(r, sc, peer, "server", stage, transport, "reject")
	case "peer-closed":
		peer.Close()
		time.Sleep(30 * time.Millisecond)
		for _, op := range c06ops {
			_ = c06doOp(sc, op, "tok-closed-"+op)
			r.Evals++
			r.Count("cells", 1)
			r.Count("ops_either", 1)
			r.Fingerprints = append(r.Fingerprints, fmt.Sprintf("server|peer-closed|%s|%s", op, transport))
		}
	}
	if r.Sample == nil {
		r.Sample = map[string]interface{}{"role": "server", "stage": stage, "transport": transport, "operations": c06ops}
	}
}

// clientInject: the peer injects a data envelope into the client's handshake at a stage.
func (p c06) clientInject(r *core.Result, c core.Case) {
	stage, transport := c.Str("stage", ""), c.Str("transport", "")
	injections := []map[string]interface{}{
		{"id": "inj-m", "type": "text/plain", "content": "boo"},
		{"id": "inj-n", "event": "received"},
		{"id": "inj-q", "method": "get", "uri": "/ping"},
		{"id": "inj-r", "method": "get", "status": "success"},
	}
	for _, inj := range injections {
		lib, peer, cleanup, err := c06link(transport, false)
		if err != nil {
			r.Verdict = core.Inconclusive
			r.Note = err.Error()
			return
		}
		r.Count("runs", 1)
		cc := lime.NewClientChannel(lib, 4)
		type estRes struct {
			ses *lime.Session
			err error
		}
		done := make(chan estRes, 1)
		go func() {
			ctx, cancel := context.WithTimeout(context.Background(), 8*time.Second)
			defer cancel()
			s, err := cc.EstablishSession(ctx, lime.NoneCompressionSelector, lime.NoneEncryptionSelector, lime.Identity{Name: "cli", Domain: "verif.local"}, lime.GuestAuthenticator, "i")
			done <- estRes{s, err}
		}()
		srv := func(m map[string]interface{}) {
			m["id"] = "sess-1"
			m["from"] = c06srvNode
			_ = peer.Send(m)
		}
		_, _ = peer.Recv(5 * time.Second) // new
		switch stage {
		case "negotiating-confirmed":
			srv(map[string]interface{}{"state": "negotiating", "encryptionOptions": []string{"none"}, "compressionOptions": []string{"none"}})
			_, _ = peer.Recv(5 * time.Second)
			srv(map[string]interface{}{"state": "negotiating", "encryption": "none", "compression": "none"})
		case "authenticating":
			srv(map[string]interface{}{"state": "authenticating", "schemeOptions": []string{"guest"}})
			_, _ = peer.Recv(5 * time.Second)
		case "round-trip":
			srv(map[string]interface{}{"state": "authenticating", "schemeOptions": []string{"guest"}})
			_, _ = peer.Recv(5 * time.Second)
			srv(map[string]interface{}{"state": "authenticating", "scheme": "plain", "authentication": map[string]interface{}{"password": "cnQ="}})
			_, _ = peer.Recv(5 * time.Second)
		}
		cp := map[string]interface{}{}
		for k, v := range inj {
			cp[k] = v
		}
		_ = peer.Send(cp)
		// a tolerant client would now wait for more: offer it the rest of a perfectly good handshake
		go func() {
			time.Sleep(50 * time.Millisecond)
			srv(map[string]interface{}{"state": "authenticating", "schemeOptions": []string{"guest"}})
			time.Sleep(20 * time.Millisecond)
			srv(map[string]interface{}{"state": "established", "to": "cli@verif.local/i"})
		}()
		r.Evals++
		r.Count("client_injections", 1)
		kind := strings.TrimPrefix(fmt.Sprint(inj["id"]), "inj-")
		r.Fingerprints = append(r.Fingerprints, fmt.Sprintf("client-inject|%s|%s|%s", stage, kind, transport))
		select {
		case res := <-done:
			if res.err == nil {
				r.Violate("C06/client-handshake-not-aborted/"+stage, fmt.Sprintf("a data envelope (%v) injected at client stage %s over %s did not abort the handshake (result state %v)", inj, stage, transport, res.ses.State))
			}
		case <-time.After(12 * time.Second):
			r.Violate("C06/client-handshake-not-aborted/"+stage, fmt.Sprintf("EstablishSession still blocked after a data envelope was injected at stage %s over %s", stage, transport))
		}
		// nothing may have reached the inbound streams
		select {
		case m, ok := <-cc.MsgChan():
			if ok {
				r.Violate("C06/injected-delivered/message", fmt.Sprintf("injected message reached MsgChan: %v", m))
			}
		case n, ok := <-cc.NotChan():
			if ok {
				r.Violate("C06/injected-delivered/notification", fmt.Sprintf("injected notification reached NotChan: %v", n))
			}
		case q, ok := <-cc.ReqCmdChan():
			if ok {
				r.Violate("C06/injected-delivered/request", fmt.Sprintf("injected request reached ReqCmdChan: %v", q))
			}
		case q, ok := <-cc.RespCmdChan():
			if ok {
				r.Violate("C06/injected-delivered/response", fmt.Sprintf("injected response reached RespCmdChan: %v", q))
			}
		case <-time.After(30 * time.Millisecond):
		}
		peer.Close()
		_ = cc.Close()
		cleanup()
	}
	_ = net.IPv4zero
}

// lateSend: the hook point channel.send.checked (after the state check, before the transport) holds one client send;
// the server finishes the session and the client applies the finished state; the send is released. The envelope must
// not reach the server's handlers.
func (p c06) lateSend(r *core.Result, c core.Case) {
	var armed int32
	entered := make(chan struct{}, 1)
	release := make(chan struct{})
	lime.VerifSetPointHandler(func(name string) {
		if name == "channel.send.checked" && atomic.CompareAndSwapInt32(&armed, 1, 2) {
			entered <- struct{}{}
			<-release
		}
	})
	defer lime.VerifSetPointHandler(nil)
	for round := 0; round < c.Int("rounds", 6); round++ {
		flavour := []string{rig.InProc, rig.TCP, rig.WS}[round%3]
		tag := fmt.Sprintf("late send over %s", flavour)
		var mu sync.Mutex
		var srvCh *lime.ServerChannel
		var lateAtHandler bool
		est := make(chan struct{}, 1)
		mux := &lime.EnvelopeMux{}
		mux.MessageHandlerFunc(nil, func(ctx context.Context, m *lime.Message, sd lime.Sender) error {
			if m.ID == "late" {
				mu.Lock()
				lateAtHandler = true
				mu.Unlock()
			}
			return nil
		})
		cfg := rig.DefaultServerConfig()
		cfg.ChannelBufferSize = 4
		cfg.Established = func(id string, ch *lime.ServerChannel) {
			mu.Lock()
			srvCh = ch
			mu.Unlock()
			select {
			case est <- struct{}{}:
			default:
			}
		}
		sr, err := rig.StartServer(cfg, mux, []string{flavour}, 0)
		if err != nil {
			r.Verdict = core.Inconclusive
			r.Note = err.Error()
			return
		}
		ctx, cancel := context.WithTimeout(context.Background(), 30*time.Second)
		cc, _, err := sr.EstablishClient(ctx, flavour, 4, 4, lime.Identity{Name: "late", Domain: "verif.local"}, "i")
		if err != nil {
			cancel()
			sr.Close(10 * time.Second)
			r.Verdict = core.Inconclusive
			r.Note = err.Error()
			return
		}
		select {
		case <-est:
		case <-time.After(5 * time.Second):
		}
		mu.Lock()
		sc := srvCh
		mu.Unlock()
		if sc == nil {
			cancel()
			_ = cc.Close()
			sr.Close(10 * time.Second)
			r.Verdict = core.Inconclusive
			r.Note = "no Established callback"
			return
		}
		release = make(chan struct{})
		atomic.StoreInt32(&armed, 1)
		sendErr := make(chan error, 1)
		go func() {
			m := &lime.Message{}
			m.ID = "late"
			m.SetContent(lime.TextDocument("after the end"))
			sendErr <- cc.SendMessage(ctx, m)
		}()
		held := false
		select {
		case <-entered:
			held = true
		case <-time.After(5 * time.Second):
		}
		r.Evals++
		r.Count("runs", 1)
		if !held {
			atomic.StoreInt32(&armed, 0)
			r.Count("latesend_hook_not_reached", 1)
		} else {
			srvT := sc.VerifTransport()
			_ = sc.FinishSession(ctx)
			// the client applies the finished session
			for i := 0; i < 2500 && cc.State() != lime.SessionStateFinished; i++ {
				time.Sleep(2 * time.Millisecond)
			}
			ended := cc.State() == lime.SessionStateFinished
			close(release)
			var serr error
			select {
			case serr = <-sendErr:
			case <-time.After(10 * time.Second):
				serr = fmt.Errorf("send still blocked")
			}
			r.Count("latesend_held", 1)
			if ended {
				r.Count("stage_checks", 1)
				// (The send overlaps the end of the session: it may be ordered before it, so neither its result nor bytes
				// written to a connection the peer has already left are judged - over TCP the write succeeds. What must
				// not happen is the peer's application seeing it.)
				if serr == nil {
					r.Count("latesend_returned_nil", 1)
				} else {
					r.Count("latesend_returned_error", 1)
				}
				_ = srvT
				mu.Lock()
				if lateAtHandler {
					r.Violate("C06/late-send-dispatched/"+flavour, fmt.Sprintf("%s: the data envelope sent after the end of the session reached the server's handler", tag))
				}
				mu.Unlock()
			}
		}
		cancel()
		_ = cc.Close()
		sr.Close(10 * time.Second)
		r.Fingerprints = append(r.Fingerprints, "latesend|"+flavour)
	}
}
