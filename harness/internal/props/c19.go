package props

import (
	"bytes"
	"context"
	"fmt"
	"runtime"
	"strings"
	"sync"
	"sync/atomic"
	"time"

	lime "github.com/takenet/lime-go"

	"verif/harness/internal/core"
	"verif/harness/internal/rig"
)

// C19 — The client recovers from any unrequested loss of its session.
type c19 struct{}

func init() { core.Register(c19{}) }

func (c19) ID() string                  { return "C19" }
func (c19) Level() string               { return "fault_enumeration" }
func (c19) ChildParallel() int          { return 1 }
func (c19) Exhaustive(tier string) bool { return false }
func (c19) Rule() string {
	return "A real high-level Client (handlers registered) against a real Server; over TCP and WebSocket through a harness man-in-the-middle proxy that taps both directions and injects faults, over in-process directly. Faults {server FinishSession, server FailSession, server FailSession whose envelope cannot be sent, abrupt close (RST), half-close towards the client, undecodable bytes, valid JSON that is not an envelope, envelope over the client's read limit (TCP)} x moment {idle, while the client is sending, while the server is pushing, again during re-establishment} x repetitions {1, 3 in a row}; quick: every fault x transport at 'idle' plus a rotating sample of the other moments, thorough: the full product x 2 seeds. " +
		"Monitor (bounded progress 20 s, canary-guarded): after the fault a Send issued later succeeds and is observed by the server's handler on a session established after the fault; a message the server pushes on that new session reaches the client's registered handler; in a 2 s idle window after recovery the listener loop iterates at most 50 + 20 x (sessions built) times (client.listen.iter hook); over TCP every Send that returned nil is found on the proxy tap of a connection after that connection's established envelope had passed. Non-trivial = all scenarios; distinct = (fault, moment, transport, repetitions)."
}
func (c19) Assumptions() []string {
	return []string{"the server stays reachable (the statement's premise)", "bounded progress: 20 s for recovery"}
}
func (c19) Floors(tier string) map[string]int {
	return map[string]int{"scenarios": 35, "recovered": 30, "pushed_after_recovery": 30, "idle_windows_measured": 30, "faults_applied": 40, "tap_checked_sends": 100}
}

type c19scn struct {
	Fault     string `json:"fault"`
	Moment    string `json:"moment"`
	Transport string `json:"transport"`
	Reps      int    `json:"reps"`
}

func (c19) Plan(tier string, seed uint64) []core.Case {
	faults := map[string][]string{
		rig.TCP:    {"finish", "fail", "fail-unsent", "reset", "halfclose", "garbage", "nonenvelope", "oversize", "regress"},
		rig.WS:     {"finish", "fail", "fail-unsent", "reset", "halfclose", "garbage", "nonenvelope", "regress"},
		rig.InProc: {"finish", "fail", "fail-unsent", "drop", "regress"},
	}
	moments := []string{"idle", "sending", "pushing", "reestablishing"}
	var scns []c19scn
	i := 0
	for _, tr := range []string{rig.TCP, rig.WS, rig.InProc} {
		for _, f := range faults[tr] {
			if tier == "thorough" {
				for _, m := range moments {
					for _, reps := range []int{1, 3} {
						scns = append(scns, c19scn{f, m, tr, reps}, c19scn{f, m, tr, reps})
					}
				}
				continue
			}
			scns = append(scns, c19scn{f, "idle", tr, 1})
			scns = append(scns, c19scn{f, moments[1+i%3], tr, 1 + 2*(i%2)})
			i++
		}
	}
	for _, f := range []string{"finish-injected", "garbage", "nonenvelope"} {
		scns = append(scns, c19scn{f, "blocked-send", rig.TCP, 1})
	}
	// the application does nothing after the loss: the background listener alone has to notice it and build a new session
	for _, sc := range []c19scn{{"finish", "passive", rig.TCP, 1}, {"reset", "passive", rig.TCP, 1}, {"garbage", "passive", rig.WS, 1}, {"fail", "passive", rig.WS, 1}, {"drop", "passive", rig.InProc, 1}, {"finish", "passive", rig.InProc, 1}, {"regress", "passive", rig.TCP, 1}, {"regress", "passive", rig.InProc, 1}} {
		scns = append(scns, sc)
	}
	// the server refuses the client's new sessions for a while after the loss
	scns = append(scns, c19scn{"finish", "refused-for-a-while", rig.InProc, 1}, c19scn{"reset", "refused-for-a-while", rig.TCP, 1}, c19scn{"garbage", "refused-for-a-while", rig.WS, 1})
	// many application goroutines inside the client's fast path while the session is lost again and again
	scns = append(scns, c19scn{"garbage", "concurrent-callers", rig.TCP, 25}, c19scn{"reset", "concurrent-callers", rig.TCP, 25}, c19scn{"fail", "concurrent-callers", rig.InProc, 25}, c19scn{"garbage", "concurrent-callers", rig.WS, 15})
	if tier != "thorough" {
		for k := 0; k < 10; k++ {
			tr := []string{rig.TCP, rig.WS}[k%2]
			scns = append(scns, c19scn{faults[tr][(k*3)%len(faults[tr])], moments[(k+2)%4], tr, 1 + 2*((k+1)%2)})
		}
	}
	var cases []core.Case
	per := 3
	for j := 0; j < len(scns); j += per {
		hi := j + per
		if hi > len(scns) {
			hi = len(scns)
		}
		var sub []interface{}
		for _, s := range scns[j:hi] {
			sub = append(sub, s)
		}
		cases = append(cases, core.Case{ID: fmt.Sprintf("C19/%03d", j/per), Engine: "scenarios", Seed: core.Derive(seed, uint64(j)).Uint64(), Solo: true, P: map[string]interface{}{"scenarios": sub}, TimeoutS: 600})
	}
	return cases
}

func (p c19) Run(c core.Case) core.Result {
	var r core.Result
	r.Verdict = core.Held
	var scns []c19scn
	remarshal(c.P["scenarios"], &scns)
	rng := core.NewRng(c.Seed)
	for _, s := range scns {
		p.scenario(&r, s, rng.Uint64())
		if len(r.Findings) > 5 {
			break
		}
	}
	return r
}

type c19server struct {
	mu       sync.Mutex
	sessions []c19session
	seen     map[string]string // token -> session id
}

type c19session struct {
	id string
	at time.Time
	sc *lime.ServerChannel
}

func (p c19) scenario(r *core.Result, s c19scn, seed uint64) {
	tag := fmt.Sprintf("fault=%s moment=%s transport=%s reps=%d", s.Fault, s.Moment, s.Transport, s.Reps)
	core.CanaryReset()
	fail := func(k, format string, a ...interface{}) {
		if core.CanaryWorstMS() > 600 {
			r.Verdict = core.Inconclusive
			r.Note = "timing clause under starvation: " + k
			return
		}
		r.Violate("C19/"+k+"/"+s.Fault+"/"+s.Transport, tag+": "+fmt.Sprintf(format, a...))
	}
	var listenIters, fastPathHits int64
	lime.VerifSetPointHandler(func(name string) {
		if name == "client.listen.iter" {
			atomic.AddInt64(&listenIters, 1)
		}
		if name == "client.getorbuild.ok" && s.Moment == "concurrent-callers" {
			// between "the current channel is usable" and its use: give the goroutine that re-establishes the
			// session a chance to run right here
			if atomic.AddInt64(&fastPathHits, 1)%4 == 0 {
				time.Sleep(50 * time.Microsecond)
			} else {
				runtime.Gosched()
			}
		}
	})
	defer lime.VerifSetPointHandler(nil)

	srv := &c19server{seen: map[string]string{}}
	mux := &lime.EnvelopeMux{}
	mux.MessageHandlerFunc(nil, func(ctx context.Context, m *lime.Message, sd lime.Sender) error {
		id, _ := lime.ContextSessionID(ctx)
		srv.mu.Lock()
		srv.seen[m.ID] = id
		srv.mu.Unlock()
		return nil
	})
	cfg := rig.DefaultServerConfig()
	cfg.ChannelBufferSize = 8
	cfg.EncryptOpts = []lime.SessionEncryption{lime.SessionEncryptionNone}
	var rejectUntil int64 // unix nano: handshakes are refused until then
	cfg.Authenticate = func(ctx context.Context, id lime.Identity, a lime.Authentication) (*lime.AuthenticationResult, error) {
		if time.Now().UnixNano() < atomic.LoadInt64(&rejectUntil) {
			return lime.UnknownAuthenticationResult(), nil
		}
		return lime.MemberAuthenticationResult(), nil
	}
	cfg.Established = func(id string, sc *lime.ServerChannel) {
		srv.mu.Lock()
		srv.sessions = append(srv.sessions, c19session{id, time.Now(), sc})
		srv.mu.Unlock()
	}
	sr, err := rig.StartServer(cfg, mux, []string{s.Transport}, 0)
	if err != nil {
		r.Verdict = core.Inconclusive
		r.Note = err.Error()
		return
	}
	defer sr.Close(20 * time.Second)
	var proxy *rig.Proxy
	if s.Transport != rig.InProc {
		proxy, err = rig.NewProxy(sr.Addr(s.Transport).String())
		if err != nil {
			r.Verdict = core.Inconclusive
			r.Note = err.Error()
			return
		}
		defer proxy.Close()
	}
	const readLimit = 8192
	var handlerGot sync.Map // token -> true (client handler)
	cmux := &lime.EnvelopeMux{}
	cmux.MessageHandlerFunc(nil, func(ctx context.Context, m *lime.Message, sd lime.Sender) error {
		handlerGot.Store(m.ID, true)
		return nil
	})
	ccfg := lime.NewClientConfig()
	ccfg.Node = lime.Node{Identity: lime.Identity{Name: "c19", Domain: "verif.local"}, Instance: "i"}
	ccfg.ChannelBufferSize = 8
	var built int64
	ccfg.NewTransport = func(ctx context.Context) (lime.Transport, error) {
		atomic.AddInt64(&built, 1)
		switch s.Transport {
		case rig.TCP:
			return lime.DialTcp(ctx, proxy.Addr(), &lime.TCPConfig{ReadLimit: readLimit})
		case rig.WS:
			return lime.DialWebsocket(ctx, "ws://"+proxy.Addr().String(), nil, nil)
		}
		return sr.Dial(ctx, rig.InProc, 8, nil)
	}
	ccfg.CompSelector = func(o []lime.SessionCompression) lime.SessionCompression { return lime.SessionCompressionNone }
	ccfg.EncryptSelector = lime.NoneEncryptionSelector
	ccfg.Authenticator = lime.GuestAuthenticator
	client := lime.NewClient(ccfg, cmux)
	closed := false
	defer func() {
		if !closed {
			cdone := make(chan struct{})
			go func() { _ = client.Close(); close(cdone) }()
			select {
			case <-cdone:
			case <-time.After(20 * time.Second):
			}
		}
	}()
	ectx, ec := context.WithTimeout(context.Background(), 15*time.Second)
	err = client.Establish(ectx)
	ec()
	if err != nil {
		r.Verdict = core.Inconclusive
		r.Note = "initial establish: " + err.Error()
		return
	}
	r.Evals++
	r.Count("scenarios", 1)
	r.Fingerprints = append(r.Fingerprints, fmt.Sprintf("%s|%s|%s|%d", s.Fault, s.Moment, s.Transport, s.Reps))

	type sendRec struct {
		tok string
		err error
		at  time.Time
	}
	var smu sync.Mutex
	var sends []sendRec
	var seq int64
	var blockedSends int64
	sendOne := func(prefix string, timeout time.Duration) (string, error) {
		tok := fmt.Sprintf("%s-%d", prefix, atomic.AddInt64(&seq, 1))
		m := &lime.Message{}
		m.ID = tok
		m.SetContent(lime.TextDocument("c19"))
		ctx, cancel := context.WithTimeout(context.Background(), timeout)
		// (a send may queue behind another send's mutex without looking at its context: the harness does not wait
		// for it beyond its deadline plus a margin, it just counts it as failed)
		errc := make(chan error, 1)
		go func() { errc <- client.SendMessage(ctx, m) }()
		var err error
		select {
		case err = <-errc:
		case <-time.After(timeout + 3*time.Second):
			err = fmt.Errorf("send still blocked %v after its deadline", 3*time.Second)
			atomic.AddInt64(&blockedSends, 1)
		}
		cancel()
		smu.Lock()
		sends = append(sends, sendRec{tok, err, time.Now()})
		smu.Unlock()
		return tok, err
	}
	latestSession := func() (c19session, int) {
		srv.mu.Lock()
		defer srv.mu.Unlock()
		if len(srv.sessions) == 0 {
			return c19session{}, 0
		}
		return srv.sessions[len(srv.sessions)-1], len(srv.sessions)
	}
	// background activity according to the moment
	stop := make(chan struct{})
	var bg sync.WaitGroup
	if s.Moment == "sending" {
		bg.Add(1)
		go func() {
			defer bg.Done()
			for {
				select {
				case <-stop:
					return
				default:
				}
				_, _ = sendOne("bg", 2*time.Second)
				runtime.Gosched()
			}
		}()
	}
	if s.Moment == "concurrent-callers" {
		doneCtx, dc := context.WithCancel(context.Background())
		dc()
		for g := 0; g < 8; g++ {
			bg.Add(1)
			go func(g int) {
				defer bg.Done()
				for k := 0; ; k++ {
					select {
					case <-stop:
						return
					default:
					}
					if g%2 == 0 {
						_ = client.Establish(doneCtx) // fast path only: returns at once when a rebuild is needed
					} else {
						m := &lime.Message{}
						m.ID = fmt.Sprintf("cc-%d-%d", g, k)
						m.SetContent(lime.TextDocument("c"))
						ctx, cancel := context.WithTimeout(context.Background(), 200*time.Millisecond)
						_ = client.SendMessage(ctx, m)
						cancel()
					}
					if k%64 == 63 {
						runtime.Gosched()
					}
				}
			}(g)
		}
	}
	if s.Moment == "pushing" {
		bg.Add(1)
		go func() {
			defer bg.Done()
			for k := 0; ; k++ {
				select {
				case <-stop:
					return
				default:
				}
				ses, n := latestSession()
				if n > 0 {
					m := &lime.Message{}
					m.ID = fmt.Sprintf("push-bg-%d", k)
					m.SetContent(lime.TextDocument("p"))
					ctx, cancel := context.WithTimeout(context.Background(), time.Second)
					_ = ses.sc.SendMessage(ctx, m)
					cancel()
				}
				runtime.Gosched()
			}
		}()
	}
	var hugeCancel context.CancelFunc
	hugeDone := make(chan error, 1)
	if s.Moment == "blocked-send" && proxy != nil {
		// a send that blocks mid-write because the peer stopped reading, with a context that never expires
		if pc := proxy.Current(); pc != nil {
			pc.StallC2S(true)
		}
		var hctx context.Context
		hctx, hugeCancel = context.WithCancel(context.Background())
		go func() {
			m := &lime.Message{}
			m.ID = "huge"
			m.SetContent(lime.TextDocument(strings.Repeat("h", 32<<20)))
			hugeDone <- client.SendMessage(hctx, m)
		}()
		time.Sleep(300 * time.Millisecond)
	}
	time.Sleep(time.Duration(1+seed%5) * time.Millisecond)

	applyFault := func() bool {
		ses, n := latestSession()
		if n == 0 {
			return false
		}
		var pc *rig.ProxyConn
		if proxy != nil {
			pc = proxy.Current()
			if pc == nil {
				return false
			}
		}
		inject := func(b []byte) {
			if s.Transport == rig.WS {
				pc.InjectToClient(rig.WSTextFrame(bytes.TrimRight(b, "\n")))
			} else {
				pc.InjectToClient(b)
			}
		}
		ctx, cancel := context.WithTimeout(context.Background(), 8*time.Second)
		time.AfterFunc(9*time.Second, cancel) // (not cancelled when this function returns: the call runs on)
		switch s.Fault {
		case "finish":
			go func() { _ = ses.sc.FinishSession(ctx) }()
			time.Sleep(2 * time.Millisecond)
		case "fail":
			go func() { _ = ses.sc.FailSession(ctx, &lime.Reason{Code: 5, Description: "c19"}) }()
			time.Sleep(2 * time.Millisecond)
		case "fail-unsent":
			// the server application fails the session but the envelope cannot be sent (its context is already over)
			dead, dc := context.WithCancel(context.Background())
			dc()
			_ = ses.sc.FailSession(dead, &lime.Reason{Code: 6, Description: "c19 unsent"})
		case "finish-injected":
			// the finished session arrives although the client's own send is stuck (the proxy speaks for the server)
			inject([]byte(`{"id":"` + ses.id + `","from":"postmaster@verif.local/srv","state":"finished"}` + "\n"))
		case "drop":
			// the server's end of the connection is closed abruptly: no session envelope announces it
			_ = ses.sc.VerifTransport().Close()
		case "regress":
			// a session envelope that moves the established session back to an earlier state
			if pc != nil {
				inject([]byte(`{"id":"` + ses.id + `","from":"postmaster@verif.local/srv","state":"authenticating","schemeOptions":["guest"]}` + "\n"))
			} else {
				reg := &lime.Session{State: lime.SessionStateAuthenticating, SchemeOptions: []lime.AuthenticationScheme{lime.AuthenticationSchemeGuest}}
				reg.ID = ses.id
				go func() { _ = ses.sc.VerifTransport().Send(ctx, reg) }()
				time.Sleep(2 * time.Millisecond)
			}
		case "reset":
			pc.Reset()
		case "halfclose":
			pc.HalfCloseToClient()
		case "garbage":
			inject([]byte("}{\"not json at all]]\n"))
		case "nonenvelope":
			inject([]byte("{\"foo\":1,\"bar\":[true,null]}\n"))
		case "oversize":
			inject([]byte(`{"id":"big","type":"text/plain","content":"` + strings.Repeat("x", 3*readLimit) + "\"}\n"))
		}
		r.Count("faults_applied", 1)
		return true
	}
	faultAt := time.Now()
	for rep := 0; rep < s.Reps; rep++ {
		_, before := latestSession()
		t0 := time.Now()
		if s.Moment == "refused-for-a-while" {
			atomic.StoreInt64(&rejectUntil, time.Now().Add(1500*time.Millisecond).UnixNano())
		}
		built0 := atomic.LoadInt64(&built)
		if !applyFault() {
			break
		}
		faultAt = t0
		if s.Moment == "refused-for-a-while" {
			// the server is reachable but refuses the new session for 1.5 s: the client retries with its back-off
			// (0, 100, 400, 900 ms, ...), it does not hammer the server
			time.Sleep(1500 * time.Millisecond)
			if n := atomic.LoadInt64(&built) - built0; n > 60 {
				fail("reconnect-busy-loop", "while the server refused new sessions for 1.5 s after the fault, the client opened %d connections", n)
			} else {
				r.Count("refused_window_connections", int(n))
				r.Count("refused_windows", 1)
			}
		}
		if s.Moment == "passive" {
			if !func() bool {
				deadline := time.Now().Add(12 * time.Second)
				for time.Now().Before(deadline) {
					if _, n := latestSession(); n > before {
						return true
					}
					time.Sleep(5 * time.Millisecond)
				}
				return false
			}() {
				fail("listener-deaf", "12 s after the fault, with no client operation issued, the client's background listener has not established a new session (transports built: %d, listener iterations: %d)", atomic.LoadInt64(&built), atomic.LoadInt64(&listenIters))
			} else {
				r.Count("passive_recoveries", 1)
			}
		}
		if s.Moment == "reestablishing" {
			// hit the client again as soon as it has a new session
			deadline := time.Now().Add(10 * time.Second)
			for time.Now().Before(deadline) {
				_, _ = sendOne("re", time.Second)
				if _, n := latestSession(); n > before {
					break
				}
				time.Sleep(2 * time.Millisecond)
			}
			if rep == s.Reps-1 {
				t1 := time.Now()
				if applyFault() {
					faultAt = t1
				}
			}
		} else if rep < s.Reps-1 {
			// wait for the recovery before the next blow
			deadline := time.Now().Add(10 * time.Second)
			rebuilt := false
			for time.Now().Before(deadline) {
				_, _ = sendOne("mid", time.Second)
				if _, n := latestSession(); n > before {
					rebuilt = true
					break
				}
				time.Sleep(5 * time.Millisecond)
			}
			if !rebuilt {
				break // no point in hitting a client that is already down; the recovery check below decides
			}
		}
	}
	close(stop)
	bgDone := make(chan struct{})
	go func() { bg.Wait(); close(bgDone) }()
	select {
	case <-bgDone:
	case <-time.After(10 * time.Second):
		// application goroutines stuck inside client calls whose contexts ended long ago: the client is wedged
		atomic.AddInt64(&blockedSends, 1000)
	}

	// (a) a later Send succeeds and is observed by the server on a session established after the fault
	recovered := false
	var recoveredTok string
	deadline := time.Now().Add(20 * time.Second)
	for time.Now().Before(deadline) {
		tok, err := sendOne("after", 2*time.Second)
		if err == nil {
			// observed on a post-fault session?
			ok := false
			for w := 0; w < 100 && !ok; w++ {
				srv.mu.Lock()
				sid, seen := srv.seen[tok]
				var sesAt time.Time
				for _, se := range srv.sessions {
					if se.id == sid {
						sesAt = se.at
					}
				}
				srv.mu.Unlock()
				if seen && sesAt.After(faultAt) {
					ok = true
				} else if seen {
					break
				} else {
					time.Sleep(2 * time.Millisecond)
				}
			}
			if ok {
				recovered = true
				recoveredTok = tok
				break
			}
		}
		time.Sleep(20 * time.Millisecond)
	}
	_, nses := latestSession()
	if !recovered {
		buf := make([]byte, 1<<17)
		n := runtime.Stack(buf, true)
		fail("not-recovered", "within 20 s after the fault no Send both succeeded and reached the server on a session established after the fault (sessions seen by the server: %d, transports built: %d, listener iterations: %d, sends still blocked after their deadline: %d)", nses, atomic.LoadInt64(&built), atomic.LoadInt64(&listenIters), atomic.LoadInt64(&blockedSends))
		if len(r.Log) == 0 {
			r.Log = strings.Split(string(buf[:n]), "\n")
			if len(r.Log) > 200 {
				r.Log = r.Log[:200]
			}
		}
	} else {
		r.Count("recovered", 1)
		_ = recoveredTok
		// (b) the server pushes on the new session; the client's handler must get it
		ses, _ := latestSession()
		pushTok := fmt.Sprintf("push-after-%d", seed%100000)
		got := false
		for attempt := 0; attempt < 3 && !got; attempt++ {
			m := &lime.Message{}
			m.ID = pushTok
			m.SetContent(lime.TextDocument("p"))
			ctx, cancel := context.WithTimeout(context.Background(), 3*time.Second)
			_ = ses.sc.SendMessage(ctx, m)
			cancel()
			for w := 0; w < 1500 && !got; w++ {
				if _, ok := handlerGot.Load(pushTok); ok {
					got = true
				} else {
					time.Sleep(2 * time.Millisecond)
				}
			}
		}
		if !got {
			fail("deaf-after-recovery", "a message pushed by the server on the new session never reached the client's registered handler (the listener is deaf)")
		} else {
			r.Count("pushed_after_recovery", 1)
		}
	}
	// (c) idle window: the listener must not spin
	time.Sleep(50 * time.Millisecond)
	it0, b0 := atomic.LoadInt64(&listenIters), atomic.LoadInt64(&built)
	time.Sleep(2 * time.Second)
	it1, b1 := atomic.LoadInt64(&listenIters), atomic.LoadInt64(&built)
	r.Count("idle_windows_measured", 1)
	if it1-it0 > 50+20*(b1-b0) {
		fail("listener-busy-loop", "in a 2 s idle window the client's listener loop iterated %d times (sessions built in the window: %d)", it1-it0, b1-b0)
	}
	// (d) truthful success in the steady state after recovery: every acknowledged send is observed by the server, and
	// over TCP it is on the tap of a connection after that connection's established envelope had passed. (Sends
	// acknowledged while a connection is being reset may die in the socket buffer: those are not judged.)
	if recovered {
		var post []string
		for k := 0; k < 20; k++ {
			tok, err := sendOne("post", 2*time.Second)
			if err == nil {
				post = append(post, tok)
			}
		}
		time.Sleep(30 * time.Millisecond)
		var conns []*rig.ProxyConn
		if s.Transport == rig.TCP && proxy != nil {
			conns = proxy.Conns()
		}
		for _, tok := range post {
			r.Count("tap_checked_sends", 1)
			seen := false
			for w := 0; w < 500 && !seen; w++ {
				srv.mu.Lock()
				_, seen = srv.seen[tok]
				srv.mu.Unlock()
				if !seen {
					time.Sleep(2 * time.Millisecond)
				}
			}
			if !seen {
				fail("send-acknowledged-not-delivered", "after recovery SendMessage(%s) returned nil but the server never saw the envelope", tok)
				break
			}
			if conns != nil {
				needle := []byte(`"id":"` + tok + `"`)
				found := false
				for _, pc := range conns {
					if bytes.Contains(pc.C2S(), needle) && pc.EstablishedSeen() {
						found = true
						break
					}
				}
				if !found {
					fail("send-acknowledged-not-written", "SendMessage(%s) returned nil but the envelope is on no proxied connection that carried an established session", tok)
					break
				}
			}
		}
	}
	if hugeCancel != nil {
		hugeCancel()
		select {
		case <-hugeDone:
		case <-time.After(10 * time.Second):
			fail("blocked-send-never-returned", "the send that was blocked when the session was lost is still blocked 10 s after its context was cancelled")
		}
	}
	if r.Sample == nil {
		r.Sample = map[string]interface{}{"scenario": s, "sessions_seen_by_server": nses, "transports_built": atomic.LoadInt64(&built), "listener_iterations_total": atomic.LoadInt64(&listenIters), "idle_window_iterations": it1 - it0}
	}
	cdone := make(chan struct{})
	go func() { _ = client.Close(); close(cdone) }()
	select {
	case <-cdone:
	case <-time.After(20 * time.Second):
		fail("close-blocked", "Client.Close did not return within 20 s after the scenario")
	}
	closed = true
}
