package props

import (
	"context"
	"errors"
	"fmt"
	"runtime"
	"strings"
	"sync"
	"sync/atomic"
	"time"

	lime "github.com/takenet/lime-go"

	"verif/harness/internal/core"
	"verif/harness/internal/rig"
)

// C05 — Command responses are matched to their requests.
type c05 struct{}

func init() { core.Register(c05{}) }

func (c05) ID() string                  { return "C05" }
func (c05) Level() string               { return "exploration" }
func (c05) ChildParallel() int          { return 1 } // the point handler is process-wide (targeted stall below)
func (c05) Exhaustive(tier string) bool { return false }
func (c05) Rule() string {
	return "A real ClientChannel against a scripted responder that sees every request and is told per call what to do: answer now, answer after a random delay (so answers are permuted), answer twice, never answer, answer with an unknown id, answer only after the caller's context has ended. Every response carries a unique token. " +
		"(A) phase-structured histories with barriers, whose outcome is deterministic: a pending id X -> k concurrent calls reusing X all fail fast and put nothing on the wire -> the answer reaches the original caller -> X is reusable -> a late answer and an unknown-id answer surface on the response stream -> a duplicated answer: one to the caller, one to the stream. " +
		"(B) free-for-all histories: 2-16 concurrent callers, ids from a small pool, random cancellations and policies, judged by conservation and identity only: every response token is consumed exactly once (by a caller whose request has the same id, or by the stream), no caller gets a response with another id, errors are only context errors or the in-use rejection (the latter only if a same-id call overlapped), no pending entry is left at quiescence. " +
		"Seeded perturbation at channel.process.registered / channel.process.cleanup / channel.submit.between. Transports: in-process and tapped TCP (quick), plus WebSocket (thorough, half under the race detector). Non-trivial = history with >=2 requests in flight when a response arrived; distinct = (kind, transport, callers, seed)."
}
func (c05) Assumptions() []string {
	return []string{"a late answer to id X that arrives while another call with id X is pending may complete that call (the statement speaks of identifiers)", "bounded progress: 5 s quiescence per history"}
}
func (c05) Floors(tier string) map[string]int {
	return map[string]int{"histories": 100, "calls": 3000, "responses_sent": 2000, "responses_to_callers": 1000, "responses_to_stream": 200, "rejected_in_use": 100, "context_errors": 200, "hook_hits": 1000}
}

func (c05) Plan(tier string, seed uint64) []core.Case {
	var cases []core.Case
	nA, nB := 60, 240
	transports := []string{rig.InProc, "faulttcp"}
	if tier == "thorough" {
		nA, nB = 600, 4400
		transports = []string{rig.InProc, "faulttcp", rig.WS}
	}
	per := 20
	for i := 0; i < nA; i += per {
		t := transports[(i/per)%len(transports)]
		cases = append(cases, core.Case{ID: fmt.Sprintf("C05/phased/%s/%04d", t, i), Engine: "phased", Seed: core.Derive(seed, 1, uint64(i)).Uint64(), P: map[string]interface{}{"n": per, "transport": t, "race": tier == "thorough" && (i/per)%2 == 0}, TimeoutS: 300})
	}
	for i := 0; i < nB; i += per {
		t := transports[(i/per)%len(transports)]
		cases = append(cases, core.Case{ID: fmt.Sprintf("C05/free/%s/%04d", t, i), Engine: "free", Seed: core.Derive(seed, 2, uint64(i)).Uint64(), P: map[string]interface{}{"n": per, "transport": t, "race": tier == "thorough" && (i/per)%2 == 0}, TimeoutS: 300})
	}
	return cases
}

type c05policy struct {
	mode    string // now delay twice never unknown late
	delayUS int
}

type c05responder struct {
	peer     c06peer
	mu       sync.Mutex
	policies map[string]c05policy // by call token (uri path)
	seen     map[string]chan struct{}
	sent     []c05wire // responses put on the wire
	sendErrs int       // responses the harness' own end failed to write
	seq      int64
	lateGo   map[string]chan struct{}
	wg       sync.WaitGroup
	requests int64
	onWire   map[string]int // requests seen per id
	lastAct  int64          // unix nano of the last request seen / response sent
}

type c05wire struct {
	rtok string
	id   string
	call string
}

func newC05responder(peer c06peer) *c05responder {
	return &c05responder{peer: peer, policies: map[string]c05policy{}, seen: map[string]chan struct{}{}, lateGo: map[string]chan struct{}{}, onWire: map[string]int{}}
}

func (rs *c05responder) expect(call string, p c05policy) (seen chan struct{}, late chan struct{}) {
	rs.mu.Lock()
	defer rs.mu.Unlock()
	rs.policies[call] = p
	s := make(chan struct{})
	rs.seen[call] = s
	l := make(chan struct{})
	rs.lateGo[call] = l
	return s, l
}

func (rs *c05responder) respond(id, call string) {
	n := atomic.AddInt64(&rs.seq, 1)
	atomic.StoreInt64(&rs.lastAct, time.Now().UnixNano())
	rtok := fmt.Sprintf("r.%d", n)
	rs.mu.Lock()
	rs.sent = append(rs.sent, c05wire{rtok, id, call})
	rs.mu.Unlock()
	if err := rs.peer.Send(map[string]interface{}{"id": id, "method": "get", "status": "success", "type": "text/plain", "resource": rtok}); err != nil {
		// the harness' own end could not put it on the wire: it was not sent
		rs.mu.Lock()
		for i := len(rs.sent) - 1; i >= 0; i-- {
			if rs.sent[i].rtok == rtok {
				rs.sent = append(rs.sent[:i], rs.sent[i+1:]...)
				break
			}
		}
		rs.sendErrs++
		rs.mu.Unlock()
	}
}

func (rs *c05responder) loop() {
	for {
		m, err := rs.peer.Recv(200 * time.Millisecond)
		if err == rig.ErrPeerTimeout {
			continue
		}
		if err != nil {
			return
		}
		uri, _ := m["uri"].(string)
		id, _ := m["id"].(string)
		if uri == "" {
			continue
		}
		call := strings.TrimPrefix(uri, "/c05/")
		atomic.AddInt64(&rs.requests, 1)
		atomic.StoreInt64(&rs.lastAct, time.Now().UnixNano())
		rs.mu.Lock()
		pol := rs.policies[call]
		seen := rs.seen[call]
		late := rs.lateGo[call]
		rs.onWire[id]++
		rs.mu.Unlock()
		if seen != nil {
			close(seen)
		}
		switch pol.mode {
		case "now":
			rs.respond(id, call)
		case "twice":
			rs.respond(id, call)
			rs.respond(id, call)
		case "unknown":
			rs.respond("unknown-"+call, call)
		case "never":
		case "delay":
			rs.wg.Add(1)
			go func() {
				defer rs.wg.Done()
				d := pol.delayUS
				if d < 300 {
					for k := 0; k < d*3; k++ {
						runtime.Gosched()
					}
				} else {
					time.Sleep(time.Duration(d) * time.Microsecond)
				}
				rs.respond(id, call)
			}()
		case "late":
			rs.wg.Add(1)
			go func() {
				defer rs.wg.Done()
				select {
				case <-late:
				case <-time.After(10 * time.Second):
				}
				rs.respond(id, call)
			}()
		}
	}
}

func c05rtok(resp *lime.ResponseCommand) string {
	if resp == nil {
		return ""
	}
	switch d := resp.Resource.(type) {
	case *lime.TextDocument:
		return string(*d)
	case lime.TextDocument:
		return string(d)
	}
	return ""
}

type c05rig struct {
	cc      *lime.ClientChannel
	rs      *c05responder
	stream  []c05wire
	smu     sync.Mutex
	cleanup func()
}

func c05setup(transport string) (*c05rig, error) {
	lib, peer, cleanup, err := c06link(transport, false)
	if err != nil {
		return nil, err
	}
	cc := lime.NewClientChannel(lib, 8)
	done := make(chan error, 1)
	go func() {
		ctx, cancel := context.WithTimeout(context.Background(), 10*time.Second)
		defer cancel()
		_, err := cc.EstablishSession(ctx, lime.NoneCompressionSelector, lime.NoneEncryptionSelector, lime.Identity{Name: "c05", Domain: "verif.local"}, lime.GuestAuthenticator, "i")
		done <- err
	}()
	if _, err := peer.Recv(5 * time.Second); err != nil {
		return nil, fmt.Errorf("no new session: %v", err)
	}
	_ = peer.Send(map[string]interface{}{"id": "c05-session", "from": "srv@verif.local/s", "to": "c05@verif.local/i", "state": "established"})
	if err := <-done; err != nil {
		return nil, err
	}
	g := &c05rig{cc: cc, rs: newC05responder(peer)}
	go g.rs.loop()
	go func() {
		for resp := range cc.RespCmdChan() {
			g.smu.Lock()
			g.stream = append(g.stream, c05wire{rtok: c05rtok(resp), id: resp.ID})
			g.smu.Unlock()
		}
	}()
	go func() {
		for range cc.MsgChan() {
		}
	}()
	g.cleanup = func() {
		peer.Close()
		_ = cc.Close()
		cleanup()
	}
	return g, nil
}

func c05request(id, call string) *lime.RequestCommand {
	req := &lime.RequestCommand{}
	req.ID = id
	req.Method = lime.CommandMethodGet
	req.SetURIString("/c05/" + call)
	return req
}

func (p c05) Run(c core.Case) core.Result {
	var r core.Result
	r.Verdict = core.Held
	var hookHits int64
	var hmu sync.Mutex
	hr := core.NewRng(c.Seed ^ 0x5a5a)
	lime.VerifSetPointHandler(func(name string) {
		if !strings.HasPrefix(name, "channel.process.") && name != "channel.submit.between" {
			return
		}
		if name == "channel.process.cleanup" && atomic.CompareAndSwapInt32(&c05stall, 1, 2) {
			// targeted stall (phased history, "reuse race"): this call has its answer and is about to clean up
			close(c05entered)
			<-c05gate
			return
		}
		atomic.AddInt64(&hookHits, 1)
		hmu.Lock()
		k := hr.Intn(16)
		hmu.Unlock()
		switch {
		case k < 5:
			runtime.Gosched()
		case k == 5:
			for i := 0; i < 50; i++ {
				runtime.Gosched()
			}
		case k == 6:
			time.Sleep(100 * time.Microsecond)
		}
	})
	defer lime.VerifSetPointHandler(nil)
	transport := c.Str("transport", rig.InProc)
	rng := core.NewRng(c.Seed)
	for h := 0; h < c.Int("n", 10); h++ {
		g, err := c05setup(transport)
		if err != nil {
			r.Verdict = core.Inconclusive
			r.Note = err.Error()
			return r
		}
		r.Evals++
		r.Count("histories", 1)
		if c.Engine == "phased" {
			p.phased(&r, g, transport, rng.Uint64(), h)
		} else {
			p.free(&r, g, transport, rng.Uint64(), h)
		}
		cdone := make(chan struct{})
		go func() { g.cleanup(); close(cdone) }()
		select {
		case <-cdone:
		case <-time.After(15 * time.Second):
			r.Violate("C05/teardown-blocked", fmt.Sprintf("history #%d over %s: closing the channel did not complete within 15 s", h, transport))
		}
		if len(r.Findings) > 2 {
			break
		}
	}
	r.Count("hook_hits", int(atomic.LoadInt64(&hookHits)))
	r.AddSet("transports_covered", transport)
	return r
}

type callRec struct {
	id, call  string
	t0, t1    int64
	rtok, rid string
	err       error
	ctxEnded  bool // the call's context had ended when it returned (whatever it returned)
}

// c05cancelledBefore: some call of the history whose context ended had started before rec returned (such a call may
// still have returned a response: one that arrived while it was giving up).
func c05cancelledBefore(recs []callRec, rec callRec) bool {
	for _, o := range recs {
		if o.call != rec.call && o.ctxEnded && o.t0 <= rec.t1 {
			return true
		}
	}
	return false
}

func c05inUse(err error) bool {
	return err != nil && strings.Contains(err.Error(), "already in use")
}

// Targeted stall of one call's cleanup (see the reuse race of the phased history).
var (
	c05stall            int32
	c05entered, c05gate chan struct{}
)

// phased: deterministic outcome thanks to barriers.
func (p c05) phased(r *core.Result, g *c05rig, transport string, seed uint64, h int) {
	rng := core.NewRng(seed)
	tag := fmt.Sprintf("phased history #%d over %s", h, transport)
	X := fmt.Sprintf("X%d", rng.Intn(3))
	wait := func(ch chan struct{}, what string) bool {
		select {
		case <-ch:
			return true
		case <-time.After(5 * time.Second):
			r.Violate("C05/phased/request-not-on-wire", fmt.Sprintf("%s: %s was not observed by the responder within 5 s", tag, what))
			return false
		}
	}
	type ret struct {
		resp *lime.ResponseCommand
		err  error
	}
	call := func(ctx context.Context, id, calltok string) chan ret {
		ch := make(chan ret, 1)
		go func() {
			resp, err := g.cc.ProcessCommand(ctx, c05request(id, calltok))
			ch <- ret{resp, err}
		}()
		return ch
	}
	bg, cancelAll := context.WithTimeout(context.Background(), 20*time.Second)
	defer cancelAll()
	// phase 1: A(X) pending (responder answers only when told: "late")
	seenA, goA := g.rs.expect("A", c05policy{mode: "late"})
	chA := call(bg, X, "A")
	r.Count("calls", 1)
	if !wait(seenA, "request A") {
		return
	}
	// phase 2: k concurrent calls reusing X
	k := 1 + rng.Intn(6)
	var wg sync.WaitGroup
	var rmu sync.Mutex
	for i := 0; i < k; i++ {
		wg.Add(1)
		go func(i int) {
			defer wg.Done()
			ctx, cancel := context.WithTimeout(bg, 2*time.Second)
			defer cancel()
			calltok := fmt.Sprintf("B%d", i)
			g.rs.expect(calltok, c05policy{mode: "now"})
			t0 := time.Now()
			resp, err := g.cc.ProcessCommand(ctx, c05request(X, calltok))
			rmu.Lock()
			defer rmu.Unlock()
			r.Count("calls", 1)
			if !c05inUse(err) {
				r.Violate("C05/duplicate-id-not-rejected", fmt.Sprintf("%s: a call reusing the pending id %s returned (%v, %v) after %v instead of the in-use rejection", tag, X, resp, err, time.Since(t0)))
			} else {
				r.Count("rejected_in_use", 1)
			}
		}(i)
	}
	wg.Wait()
	g.rs.mu.Lock()
	nX := g.rs.onWire[X]
	g.rs.mu.Unlock()
	time.Sleep(2 * time.Millisecond)
	g.rs.mu.Lock()
	nX = g.rs.onWire[X]
	g.rs.mu.Unlock()
	if nX != 1 {
		r.Violate("C05/rejected-call-on-wire", fmt.Sprintf("%s: %d requests with id %s reached the wire, only the pending one should have", tag, nX, X))
	}
	// phase 3: answer X -> A gets it
	close(goA)
	aTok := ""
	select {
	case a := <-chA:
		if a.err != nil || a.resp == nil || a.resp.ID != X {
			r.Violate("C05/pending-disturbed", fmt.Sprintf("%s: after %d rejected duplicates the pending call returned (%v, %v) instead of its answer", tag, k, a.resp, a.err))
		} else {
			r.Count("responses_to_callers", 1)
			aTok = c05rtok(a.resp)
		}
	case <-time.After(5 * time.Second):
		r.Violate("C05/pending-disturbed", fmt.Sprintf("%s: after %d rejected duplicates the pending call never got its answer", tag, k))
		return
	}
	if r.Verdict == core.Violated {
		return
	}
	// phase 4: X is reusable
	seenC, _ := g.rs.expect("C", c05policy{mode: "now"})
	ctxC, cancelC := context.WithTimeout(bg, 5*time.Second)
	cr := <-call(ctxC, X, "C")
	cancelC()
	r.Count("calls", 1)
	_ = seenC
	if cr.err != nil || cr.resp == nil || cr.resp.ID != X {
		r.Violate("C05/id-not-reusable", fmt.Sprintf("%s: id %s could not be reused after its call completed: (%v, %v)", tag, X, cr.resp, cr.err))
	} else {
		r.Count("responses_to_callers", 1)
	}
	// phase 5: late answer after the caller's context ended -> stream
	seenD, goD := g.rs.expect("D", c05policy{mode: "late"})
	ctxD, cancelD := context.WithCancel(bg)
	chD := call(ctxD, "Y-late", "D")
	r.Count("calls", 1)
	if !wait(seenD, "request D") {
		cancelD()
		return
	}
	cancelD()
	d := <-chD
	if d.err == nil || !errors.Is(d.err, context.Canceled) {
		r.Violate("C05/context-error", fmt.Sprintf("%s: a cancelled call returned (%v, %v), expected its context's error", tag, d.resp, d.err))
	} else {
		r.Count("context_errors", 1)
	}
	close(goD)
	// phase 6: unknown id answer; phase 7: duplicated answer
	seenE, _ := g.rs.expect("E", c05policy{mode: "unknown"})
	ctxE, cancelE := context.WithTimeout(bg, 300*time.Millisecond)
	e := <-call(ctxE, "Z-unk", "E")
	cancelE()
	r.Count("calls", 1)
	_ = seenE
	if e.err == nil {
		r.Violate("C05/foreign-response", fmt.Sprintf("%s: a call whose answer carried an unknown id returned %v", tag, e.resp))
	} else {
		r.Count("context_errors", 1)
	}
	g.rs.expect("F", c05policy{mode: "twice"})
	ctxF, cancelF := context.WithTimeout(bg, 5*time.Second)
	f := <-call(ctxF, "W-twice", "F")
	cancelF()
	r.Count("calls", 1)
	if f.err != nil || f.resp == nil || f.resp.ID != "W-twice" {
		r.Violate("C05/duplicated-answer-call", fmt.Sprintf("%s: the call whose answer is sent twice returned (%v, %v)", tag, f.resp, f.err))
	} else {
		r.Count("responses_to_callers", 1)
	}
	// phase 8: reuse race - G has received its answer and is held right before its cleanup; H reuses the id (which is
	// free again: G completed as far as the table is concerned), reaches the wire, and only then G cleans up. G's
	// cleanup must not disturb H: H gets its own answer.
	got := []ret2{{aTok, X}, {c05rtok(cr.resp), X}, {c05rtok(f.resp), "W-twice"}}
	c05entered, c05gate = make(chan struct{}), make(chan struct{})
	gateOpen := false
	openGate := func() {
		if !gateOpen {
			gateOpen = true
			close(c05gate)
		}
	}
	defer func() { atomic.StoreInt32(&c05stall, 0); openGate() }()
	atomic.StoreInt32(&c05stall, 1)
	g.rs.expect("G", c05policy{mode: "now"})
	ctxG, cancelG := context.WithTimeout(bg, 5*time.Second)
	defer cancelG()
	chG := call(ctxG, "V-race", "G")
	r.Count("calls", 1)
	select {
	case <-c05entered:
		seenH, goH := g.rs.expect("H", c05policy{mode: "late"})
		ctxH, cancelH := context.WithTimeout(bg, 5*time.Second)
		defer cancelH()
		chH := call(ctxH, "V-race", "H")
		r.Count("calls", 1)
		if !wait(seenH, "request H (id reused while the previous call with that id is cleaning up)") {
			return
		}
		openGate()
		gr := <-chG
		if gr.err != nil || gr.resp == nil || gr.resp.ID != "V-race" {
			r.Violate("C05/reuse-race", fmt.Sprintf("%s: the call held before its cleanup returned (%v, %v) instead of its answer", tag, gr.resp, gr.err))
		} else {
			r.Count("responses_to_callers", 1)
			got = append(got, ret2{c05rtok(gr.resp), "V-race"})
		}
		close(goH)
		hr := <-chH
		if hr.err != nil || hr.resp == nil || hr.resp.ID != "V-race" {
			r.Violate("C05/reuse-race", fmt.Sprintf("%s: a call that reused an id while the previous call with that id was cleaning up returned (%v, %v) instead of its own answer", tag, hr.resp, hr.err))
		} else {
			r.Count("responses_to_callers", 1)
			r.Count("reuse_races", 1)
			got = append(got, ret2{c05rtok(hr.resp), "V-race"})
		}
	case gr := <-chG:
		// the cleanup point was not reached before the call returned (hooks off?): nothing to race with
		r.Count("reuse_race_not_reached", 1)
		if gr.err == nil && gr.resp != nil {
			r.Count("responses_to_callers", 1)
			got = append(got, ret2{c05rtok(gr.resp), "V-race"})
		}
	}
	atomic.StoreInt32(&c05stall, 0)
	// conservation at quiescence
	p.conserve(r, g, tag, nil, got, true)
	// phase 9 (last: it ends the session): a request is pending when the session ends - the peer finishes it, fails
	// it or drops the connection. The pending call still completes with its context's error (or, should an answer
	// have arrived, with that answer) - never with nothing at all.
	seenQ, _ := g.rs.expect("Q", c05policy{mode: "never"})
	ctxQ, cancelQ := context.WithTimeout(bg, 400*time.Millisecond)
	defer cancelQ()
	chQ := call(ctxQ, "Q-end", "Q")
	r.Count("calls", 1)
	if wait(seenQ, "request Q") {
		end := []string{"finished", "failed", "drop"}[(h+int(seed%3))%3]
		switch end {
		case "drop":
			g.rs.peer.Close()
		default:
			_ = g.rs.peer.Send(map[string]interface{}{"id": "c05-session", "from": "srv@verif.local/s", "to": "c05@verif.local/i", "state": end, "reason": map[string]interface{}{"code": 1, "description": "c05"}})
		}
		select {
		case q := <-chQ:
			switch {
			case q.err == nil && q.resp == nil:
				r.Violate("C05/no-result", fmt.Sprintf("%s: a call that was pending when the session ended (%s) returned neither a response nor an error", tag, end))
			case q.err == nil && q.resp.ID != "Q-end":
				r.Violate("C05/foreign-response", fmt.Sprintf("%s: a call that was pending when the session ended (%s) returned a response with id %s", tag, end, q.resp.ID))
			case q.err != nil && (errors.Is(q.err, context.DeadlineExceeded) || errors.Is(q.err, context.Canceled)):
				r.Count("context_errors", 1)
				r.Count("pending_at_session_end", 1)
			default:
				r.Count("pending_at_session_end_other_error", 1)
			}
		case <-time.After(5 * time.Second):
			r.Violate("C05/calls-blocked", fmt.Sprintf("%s: a call that was pending when the session ended (%s) has not returned 4.6 s after its context's deadline", tag, end))
		}
	}
	r.Fingerprints = append(r.Fingerprints, fmt.Sprintf("phased|%s|k=%d|%s", transport, k, X))
	if r.Sample == nil {
		r.Sample = map[string]interface{}{"kind": "phased", "transport": transport, "duplicates_rejected": k, "id": X, "phases": []string{"pending", "duplicates rejected", "answer to original caller", "id reused", "late answer to stream", "unknown id to stream", "duplicate answer: caller + stream", "id reused while the previous call cleans up"}}
	}
}

type ret2 struct{ rtok, id string }

// conserve: every response token put on the wire is consumed exactly once (callers' tokens are passed in consumed).
func (p c05) conserve(r *core.Result, g *c05rig, tag string, outcomes map[string]string, callerGot []ret2, phased bool) {
	// wait for quiescence: the responder has been idle for a while (requests of cancelled calls may still be in
	// flight towards it) and all sent tokens are accounted for - or 5 s
	deadline := time.Now().Add(5 * time.Second)
	var sent []c05wire
	var stream []c05wire
	for {
		g.rs.wg.Wait()
		g.rs.mu.Lock()
		sent = append([]c05wire{}, g.rs.sent...)
		g.rs.mu.Unlock()
		g.smu.Lock()
		stream = append([]c05wire{}, g.stream...)
		g.smu.Unlock()
		idle := time.Since(time.Unix(0, atomic.LoadInt64(&g.rs.lastAct)))
		if (len(stream)+len(callerGot) >= len(sent) && idle > 5*time.Millisecond) || time.Now().After(deadline) {
			// final, consistent snapshot: responses first, then consumers
			g.rs.wg.Wait()
			g.rs.mu.Lock()
			sent2 := append([]c05wire{}, g.rs.sent...)
			g.rs.mu.Unlock()
			if len(sent2) == len(sent) || time.Now().After(deadline) {
				sent = sent2
				break
			}
			continue
		}
		runtime.Gosched()
	}
	// The judged set of responses is fixed first; the consumers are looked at afterwards (a response that the
	// responder writes after this point - to the request of a cancelled call still in flight - may or may not be
	// consumed yet: it is only used to tell a consumed token from a fabricated one).
	g.rs.mu.Lock()
	sent = append([]c05wire{}, g.rs.sent...)
	g.rs.mu.Unlock()
	accounted := func() bool {
		seen := map[string]bool{}
		for _, c := range callerGot {
			seen[c.rtok] = true
		}
		g.smu.Lock()
		for _, s := range g.stream {
			seen[s.rtok] = true
		}
		g.smu.Unlock()
		for _, s := range sent {
			if !seen[s.rtok] {
				return false
			}
		}
		return true
	}
	for i := 0; i < 500 && !accounted(); i++ {
		time.Sleep(2 * time.Millisecond)
	}
	g.smu.Lock()
	stream = append([]c05wire{}, g.stream...)
	g.smu.Unlock()
	g.rs.mu.Lock()
	sentLater := append([]c05wire{}, g.rs.sent...)
	g.rs.mu.Unlock()
	consumed := map[string]int{}
	for _, c := range callerGot {
		if c.rtok != "" {
			consumed[c.rtok]++
		}
	}
	for _, s := range stream {
		consumed[s.rtok]++
		r.Count("responses_to_stream", 1)
	}
	r.Count("responses_sent", len(sent))
	g.rs.mu.Lock()
	r.Count("responder_send_errors", g.rs.sendErrs)
	g.rs.mu.Unlock()
	sentTok := map[string]c05wire{}
	for _, s := range sent {
		sentTok[s.rtok] = s
		switch consumed[s.rtok] {
		case 1:
		case 0:
			if core.CanaryWorstMS() > 1500 {
				r.Verdict = core.Inconclusive
				r.Note = "possible loss under starvation"
			} else {
				r.Violate("C05/response-lost", fmt.Sprintf("%s: response %s (id %s, answering call %s) was neither returned to a caller nor surfaced on the response stream; that call's outcome: %s", tag, s.rtok, s.id, s.call, outcomes[s.call]))
			}
		default:
			r.Violate("C05/response-duplicated", fmt.Sprintf("%s: response %s (id %s) was consumed %d times", tag, s.rtok, s.id, consumed[s.rtok]))
		}
	}
	for _, s := range sentLater {
		if _, ok := sentTok[s.rtok]; !ok {
			sentTok[s.rtok] = s
			if consumed[s.rtok] > 1 {
				r.Violate("C05/response-duplicated", fmt.Sprintf("%s: response %s (id %s) was consumed %d times", tag, s.rtok, s.id, consumed[s.rtok]))
			}
		}
	}
	for tok := range consumed {
		if _, ok := sentTok[tok]; !ok {
			r.Violate("C05/response-fabricated", fmt.Sprintf("%s: a response with token %q was consumed but never sent", tag, tok))
		}
	}
	if n := g.cc.VerifPendingCommands(); n != 0 {
		r.Violate("C05/pending-left", fmt.Sprintf("%s: %d pending-command entries left at quiescence", tag, n))
	}
}

// free-for-all histories.
func (p c05) free(r *core.Result, g *c05rig, transport string, seed uint64, h int) {
	rng := core.NewRng(seed)
	callers := []int{2, 4, 8, 16}[rng.Intn(4)]
	pool := 1 + rng.Intn(4)
	perCaller := 40 / callers * 3
	tag := fmt.Sprintf("free history #%d over %s (%d callers, %d ids)", h, transport, callers, pool)
	var mu sync.Mutex
	var recs []callRec
	var callerGot []ret2
	var wg sync.WaitGroup
	var inflightMax int64
	var inflight int64
	modes := []string{"now", "now", "delay", "delay", "delay", "twice", "never", "unknown", "late"}
	for cI := 0; cI < callers; cI++ {
		wg.Add(1)
		go func(cI int) {
			defer wg.Done()
			lr := core.Derive(seed, uint64(cI))
			for i := 0; i < perCaller; i++ {
				id := fmt.Sprintf("id%d", lr.Intn(pool))
				calltok := fmt.Sprintf("c%d.%d", cI, i)
				mode := modes[lr.Intn(len(modes))]
				pol := c05policy{mode: mode, delayUS: lr.Intn(1500)}
				_, late := g.rs.expect(calltok, pol)
				timeout := time.Duration(200+lr.Intn(3000)) * time.Microsecond
				if mode == "now" || lr.Chance(1, 3) {
					timeout = 2 * time.Second
				}
				if mode == "never" || mode == "unknown" || mode == "late" {
					timeout = time.Duration(300+lr.Intn(1500)) * time.Microsecond
				}
				ctx, cancel := context.WithCancel(context.Background())
				timer := time.AfterFunc(timeout, cancel)
				n := atomic.AddInt64(&inflight, 1)
				for {
					m := atomic.LoadInt64(&inflightMax)
					if n <= m || atomic.CompareAndSwapInt64(&inflightMax, m, n) {
						break
					}
				}
				t0 := time.Now().UnixNano()
				resp, err := g.cc.ProcessCommand(ctx, c05request(id, calltok))
				t1 := time.Now().UnixNano()
				ctxEnded := ctx.Err() != nil
				atomic.AddInt64(&inflight, -1)
				timer.Stop()
				cancel()
				close(late)
				rec := callRec{id: id, call: calltok, t0: t0, t1: t1, err: err, ctxEnded: ctxEnded}
				if resp != nil {
					rec.rtok, rec.rid = c05rtok(resp), resp.ID
				}
				mu.Lock()
				recs = append(recs, rec)
				if resp != nil && err == nil {
					callerGot = append(callerGot, ret2{rec.rtok, id})
				}
				mu.Unlock()
			}
		}(cI)
	}
	wdone := make(chan struct{})
	go func() { wg.Wait(); close(wdone) }()
	select {
	case <-wdone:
	case <-time.After(25 * time.Second):
		buf := make([]byte, 1<<17)
		n := runtime.Stack(buf, true)
		r.Violate("C05/calls-blocked", fmt.Sprintf("%s: ProcessCommand calls whose contexts ended long ago have not returned after 25 s", tag))
		r.Log = strings.Split(string(buf[:n]), "\n")
		if len(r.Log) > 200 {
			r.Log = r.Log[:200]
		}
		return
	}
	mu.Lock()
	defer mu.Unlock()
	r.Count("calls", len(recs))
	for _, rec := range recs {
		switch {
		case rec.err == nil:
			r.Count("responses_to_callers", 1)
			if rec.rid != rec.id {
				r.Violate("C05/foreign-response", fmt.Sprintf("%s: call %s with id %s returned a response with id %s (token %s)", tag, rec.call, rec.id, rec.rid, rec.rtok))
			}
		case c05inUse(rec.err):
			r.Count("rejected_in_use", 1)
			overlap := false
			for _, o := range recs {
				if o.call != rec.call && o.id == rec.id && o.t0 <= rec.t1 && rec.t0 <= o.t1 {
					overlap = true
					break
				}
			}
			if !overlap {
				r.Violate("C05/spurious-in-use", fmt.Sprintf("%s: call %s with id %s was rejected as 'already in use' but no other call with that id overlapped it", tag, rec.call, rec.id))
			}
		case errors.Is(rec.err, context.Canceled) || errors.Is(rec.err, context.DeadlineExceeded):
			r.Count("context_errors", 1)
		case (transport == rig.WS || transport == rig.WSS) && strings.Contains(rec.err.Error(), "ws transport: send:") && c05cancelledBefore(recs, rec):
			// Not a pending request at all: the WebSocket transport expires its connection's write deadline to
			// interrupt a Send whose context ended mid-write, which (by its own documentation) leaves the writing
			// side in a permanent error state - later requests of this history cannot be sent any more.
			r.Count("ws_send_failed_after_a_cancelled_send", 1)
		default:
			r.Violate("C05/unexpected-error", fmt.Sprintf("%s: call %s returned an error that is neither its context's nor the in-use rejection: %v", tag, rec.call, rec.err))
		}
	}
	outcomes := map[string]string{}
	for _, rec := range recs {
		outcomes[rec.call] = fmt.Sprintf("err=%v rtok=%q duration=%dus", rec.err, rec.rtok, (rec.t1-rec.t0)/1000)
	}
	p.conserve(r, g, tag, outcomes, callerGot, false)
	if atomic.LoadInt64(&inflightMax) >= 2 {
		r.Fingerprints = append(r.Fingerprints, fmt.Sprintf("free|%s|%d|%d|%d", transport, callers, pool, seed%100000))
	}
	if r.Sample == nil {
		r.Sample = map[string]interface{}{"kind": "free", "transport": transport, "callers": callers, "id_pool": pool, "calls": len(recs), "max_in_flight": inflightMax}
	}
}
