package props

import (
	"bytes"
	"context"
	"crypto/tls"
	"encoding/json"
	"fmt"
	"net"
	"reflect"
	"strings"
	"sync"
	"time"

	lime "github.com/takenet/lime-go"

	"verif/harness/internal/core"
	"verif/harness/internal/faultconn"
	"verif/harness/internal/gen"
	"verif/harness/internal/rig"
)

// C12 — The TCP transport preserves the envelope stream under fragmentation and stalls.
type c12 struct{}

func init() { core.Register(c12{}) }

func (c12) ID() string         { return "C12" }
func (c12) Level() string      { return "fault_enumeration" }
func (c12) ChildParallel() int { return 1 }
func (c12) Exhaustive(tier string) bool {
	return false // the enumerated sub-spaces are exhaustive (see rule); the sampled plans are not
}
func (c12) Rule() string {
	return "real tcpTransport on both ends (verif constructor hook) over an in-memory fault-injecting net.Conn. One evaluation = one stream run under one fault plan. " +
		"Exhaustive sub-spaces: every single split offset of a 4-envelope stream; every pair of split offsets of a 3-envelope stream (~120 B); every short-write length k in [0,len) x {1, 2 consecutive timeouts} of a small and a 2 KiB envelope placed between two others; " +
		"every cut offset of the 4-envelope stream; coalescing of 2..5 envelopes into one read; injected read timeout before every read call. Sampled: PRNG plans over streams of 5-50 envelopes (sizes up to 256 KiB) mixing splits, random chunking, read/write timeouts, stalls, chunked writes, optional cut, optionally both directions at once, optionally under TLS (no write faults under TLS: crypto/tls documents a timed-out Write as fatal). " +
		"Non-trivial = plan that splits inside an envelope, makes a write partially succeed, injects a timeout, or cuts; distinct = distinct fault plan fingerprint. " +
		"Oracle: benign faults => every Send nil, received sequence == sent sequence (normalised equality), wire bytes == concatenation of encodings, then error after close; destructive => received is a prefix of attempted sends containing every envelope fully on the wire before the fault, then errors only."
}
func (c12) Assumptions() []string {
	return []string{
		"the injected net.Conn honours the net.Conn contract (n<len only with an error; timeouts are net.Error Timeout&&Temporary)",
		"crypto/tls and encoding/json are trusted",
		"envelopes come from the C01 generator (well-formed) with unique ids",
	}
}
func (c12) Floors(tier string) map[string]int {
	return map[string]int{"runs": 1000, "short_writes_partial": 100, "inj_read_timeouts": 100, "split_reads": 500, "cuts": 100, "envelopes_received": 5000, "tls_runs": 5, "rxexpire_runs": 100}
}

func (c12) Plan(tier string, seed uint64) []core.Case {
	var cases []core.Case
	add := func(engine string, p map[string]interface{}, s uint64) {
		cases = append(cases, core.Case{ID: fmt.Sprintf("C12/%s/%04d", engine, len(cases)), Engine: engine, Seed: s, P: p, TimeoutS: 300})
	}
	// exhaustive parts do not depend on the seed (stream content seed fixed)
	for lo := 0; lo < 400; lo += 50 {
		add("split1", map[string]interface{}{"lo": lo, "hi": lo + 50}, 11)
	}
	for lo := 0; lo < 140; lo += 10 {
		add("split2", map[string]interface{}{"lo": lo, "hi": lo + 10}, 12)
	}
	for _, big := range []bool{false, true} {
		step := 16
		max := 130
		if big {
			step = 128
			max = 2300
		}
		for lo := 0; lo < max; lo += step {
			for rep := 0; rep <= 1; rep++ {
				add("short", map[string]interface{}{"lo": lo, "hi": lo + step, "big": big, "repeat": rep}, 13)
			}
		}
	}
	for lo := 0; lo < 400; lo += 50 {
		add("cut", map[string]interface{}{"lo": lo, "hi": lo + 50}, 14)
	}
	for lo := 0; lo < 80; lo += 8 {
		add("short2", map[string]interface{}{"lo": lo, "hi": lo + 8}, 17)
	}
	for lo := 0; lo < 160; lo += 10 {
		add("rxexpire", map[string]interface{}{"lo": lo, "hi": lo + 10}, 18)
	}
	add("coalesce", map[string]interface{}{}, 15)
	add("readtimeout", map[string]interface{}{}, 16)
	nRand, nTLS := 200, 50
	if tier == "thorough" {
		nRand, nTLS = 20000, 3000
	}
	for i := 0; i < nRand; i += 20 {
		add("random", map[string]interface{}{"n": 20, "big": i%100 == 0}, core.Derive(seed, 1, uint64(i)).Uint64())
	}
	// a rejected (well-formed JSON, invalid envelope) value must leave nothing behind for the envelope that follows it
	add("afterreject", map[string]interface{}{}, core.Derive(seed, 4).Uint64())
	// a send whose context ends when only part of the envelope has been written, then more sends
	add("partialsend", map[string]interface{}{}, core.Derive(seed, 6).Uint64())
	// long streams over real sockets (listener + dialer), both directions
	add("loopstream", map[string]interface{}{}, core.Derive(seed, 5).Uint64())
	// the sender closes right after its last envelope and everything, the TLS close alert included, reaches the
	// receiver at once (TLS 1.2 and 1.3 report the end of the stream differently)
	for _, v := range []string{"1.2", "1.3"} {
		add("tlsclose", map[string]interface{}{"version": v, "n": 6}, core.Derive(seed, 3, uint64(len(v))).Uint64())
	}
	for i := 0; i < nTLS; i += 10 {
		add("tls", map[string]interface{}{"n": 10}, core.Derive(seed, 2, uint64(i)).Uint64())
	}
	return cases
}

// stream is a list of envelopes with their encodings.
type c12stream struct {
	envs []interface{}
	encs [][]byte
	ends []int64 // cumulative end offsets
	all  []byte
}

func c12mkStream(g *gen.G, n int, sizes []int) c12stream {
	var s c12stream
	var off int64
	for i := 0; i < n; i++ {
		var e interface{}
		if sizes != nil && sizes[i] > 0 {
			m := &lime.Message{}
			m.ID = fmt.Sprintf("s%d", i)
			m.SetContent(lime.TextDocument(strings.Repeat("x", sizes[i])))
			e = m
		} else {
			kind := g.R.Intn(4)
			mask := g.R.Intn(1<<gen.MaskBits(kind)) | gen.FID
			e, _ = g.Envelope(kind, mask)
			setID(e, fmt.Sprintf("s%d", i))
		}
		b, err := json.Marshal(e)
		if err != nil {
			panic(fmt.Sprintf("generator produced unencodable envelope: %v", err))
		}
		b = append(b, '\n')
		s.envs = append(s.envs, e)
		s.encs = append(s.encs, b)
		off += int64(len(b))
		s.ends = append(s.ends, off)
		s.all = append(s.all, b...)
	}
	return s
}

func setID(e interface{}, id string) {
	switch x := e.(type) {
	case *lime.Message:
		x.ID = id
	case *lime.Notification:
		x.ID = id
	case *lime.RequestCommand:
		x.ID = id
	case *lime.ResponseCommand:
		x.ID = id
	case *lime.Session:
		x.ID = id
	}
}

func getID(e interface{}) string {
	switch x := e.(type) {
	case *lime.Message:
		return x.ID
	case *lime.Notification:
		return x.ID
	case *lime.RequestCommand:
		return x.ID
	case *lime.ResponseCommand:
		return x.ID
	case *lime.Session:
		return x.ID
	}
	return ""
}

// small fixed-shape stream used by the exhaustive parts: short envelopes of the 4 data kinds.
func c12smallStream(n int) c12stream {
	var s c12stream
	var off int64
	mk := []func(i int) interface{}{
		func(i int) interface{} {
			m := &lime.Message{}
			m.ID = fmt.Sprintf("s%d", i)
			m.To = lime.Node{Identity: lime.Identity{Name: "bob", Domain: "d"}}
			m.SetContent(lime.TextDocument("héllo \"w\"\n"))
			return m
		},
		func(i int) interface{} {
			n := &lime.Notification{Event: lime.NotificationEventFailed, Reason: &lime.Reason{Code: 7, Description: "r"}}
			n.ID = fmt.Sprintf("s%d", i)
			return n
		},
		func(i int) interface{} {
			c := &lime.RequestCommand{}
			c.ID = fmt.Sprintf("s%d", i)
			c.Method = lime.CommandMethodGet
			c.SetURIString("/ping")
			return c
		},
		func(i int) interface{} {
			c := &lime.ResponseCommand{Status: lime.CommandStatusSuccess}
			c.ID = fmt.Sprintf("s%d", i)
			c.Method = lime.CommandMethodGet
			c.SetResource(&lime.JsonDocument{"k": []interface{}{1.0, "v", nil}})
			return c
		},
	}
	for i := 0; i < n; i++ {
		e := mk[i%len(mk)](i)
		b, err := json.Marshal(e)
		if err != nil {
			panic(err)
		}
		b = append(b, '\n')
		s.envs = append(s.envs, e)
		s.encs = append(s.encs, b)
		off += int64(len(b))
		s.ends = append(s.ends, off)
		s.all = append(s.all, b...)
	}
	return s
}

type c12plan struct {
	name     string
	rp       faultconn.ReadPlan
	wp       faultconn.WritePlan
	cutAt    int64 // -1 none
	coalesce bool
	capacity int
	tls      bool
	bidir    bool
	nontriv  bool
}

type c12run struct {
	sendErrs []error
	recv     []interface{}
	recvErr  error
	afterErr []string // anything non-error returned after the first error
	wire     []byte
	stats    faultconn.Stats
	ostats   faultconn.Stats
	hang     bool
}

// c12exec runs one stream A→B under a plan (and optionally B→A with a second stream).
func c12exec(st c12stream, back *c12stream, pl c12plan) (fwd c12run, bwd c12run, setupErr error) {
	tp := rig.NewTransportPair(faultconn.Options{CapAtoB: pl.capacity, CapBtoA: pl.capacity}, &lime.TCPConfig{TLSConfig: rig.ClientTLS()}, &lime.TCPConfig{TLSConfig: rig.ServerTLS()})
	defer func() {
		tp.Close()
	}()
	if pl.tls {
		ctx, cancel := context.WithTimeout(context.Background(), 20*time.Second)
		var wg sync.WaitGroup
		var e1, e2 error
		wg.Add(2)
		go func() { defer wg.Done(); e1 = tp.A.SetEncryption(ctx, lime.SessionEncryptionTLS) }()
		go func() { defer wg.Done(); e2 = tp.B.SetEncryption(ctx, lime.SessionEncryptionTLS) }()
		wg.Wait()
		cancel()
		if e1 != nil || e2 != nil {
			return fwd, bwd, fmt.Errorf("tls setup: %v / %v", e1, e2)
		}
	}
	base := tp.CB.InStats()
	baseDelivered := base.Delivered
	_ = baseDelivered
	rp := pl.rp
	// offsets in plans are relative to the start of the data stream
	wireBase := int64(len(tp.CA.WireOut()))
	for i := range rp.Splits {
		rp.Splits[i] += wireBase
	}
	tp.CB.SetReadPlan(rp)
	wp := pl.wp
	for i := range wp.ShortAt {
		wp.ShortAt[i] += wireBase
	}
	if wp.FailAt >= 0 {
		wp.FailAt += wireBase
	}
	tp.CA.SetWritePlan(wp)
	if pl.cutAt >= 0 {
		tp.CA.CutOutgoingAt(wireBase + pl.cutAt)
	}
	if pl.bidir {
		tp.CA.SetReadPlan(faultconn.ReadPlan{RandMax: 97, TimeoutProb: 5, Seed: rp.Seed + 1})
	}
	if pl.coalesce {
		tp.CB.Hold()
	}

	type dirSync struct {
		settled chan struct{} // closed when the receiver has everything or has ended
		once    sync.Once
	}
	run := func(sender, receiver lime.Transport, s c12stream, out *c12run, ds *dirSync, sendDone chan struct{}, wg *sync.WaitGroup) {
		defer wg.Done()
		var inner sync.WaitGroup
		inner.Add(2)
		go func() {
			defer inner.Done()
			defer close(sendDone)
			for _, e := range s.envs {
				ctx, cancel := context.WithTimeout(context.Background(), 30*time.Second)
				err := sendAny(ctx, sender, e)
				cancel()
				out.sendErrs = append(out.sendErrs, err)
			}
			if pl.coalesce {
				tp.CB.Release()
			}
		}()
		go func() {
			defer inner.Done()
			defer ds.once.Do(func() { close(ds.settled) })
			for {
				ctx, cancel := context.WithTimeout(context.Background(), 30*time.Second)
				env, err := receiver.Receive(ctx)
				cancel()
				if err != nil {
					out.recvErr = err
					if ctx.Err() != nil && strings.Contains(err.Error(), "deadline") {
						out.hang = true
					}
					// after an error nothing but errors may follow
					for k := 0; k < 2; k++ {
						ctx2, cancel2 := context.WithTimeout(context.Background(), 20*time.Millisecond)
						env2, err2 := receiver.Receive(ctx2)
						cancel2()
						if err2 == nil {
							out.afterErr = append(out.afterErr, fmt.Sprintf("%T id=%s", env2, getID(env2)))
						}
					}
					return
				}
				out.recv = append(out.recv, env)
				if len(out.recv) == len(s.envs) {
					ds.once.Do(func() { close(ds.settled) })
				}
				if len(out.recv) > len(s.envs)+2 {
					return
				}
			}
		}()
		inner.Wait()
	}
	var wg sync.WaitGroup
	var syncs []*dirSync
	var sendDones []chan struct{}
	wg.Add(1)
	if pl.bidir && back != nil {
		wg.Add(1)
		ds, sd := &dirSync{settled: make(chan struct{})}, make(chan struct{})
		syncs, sendDones = append(syncs, ds), append(sendDones, sd)
		go run(tp.B, tp.A, *back, &bwd, ds, sd, &wg)
	}
	ds, sd := &dirSync{settled: make(chan struct{})}, make(chan struct{})
	syncs, sendDones = append(syncs, ds), append(sendDones, sd)
	go run(tp.A, tp.B, st, &fwd, ds, sd, &wg)
	go func() {
		// once every direction has settled and every sender has returned, close the connection so that the
		// receivers' next Receive ends with an error
		for _, d := range syncs {
			<-d.settled
		}
		for _, d := range sendDones {
			<-d
		}
		_ = tp.CA.Close()
		_ = tp.CB.Close()
	}()
	done := make(chan struct{})
	go func() { wg.Wait(); close(done) }()
	select {
	case <-done:
	case <-time.After(100 * time.Second):
		fwd.hang = true
		_ = tp.CA.Close()
		_ = tp.CB.Close()
		<-done
	}
	w := tp.CA.WireOut()
	if int64(len(w)) >= wireBase {
		fwd.wire = w[wireBase:]
	}
	fwd.stats = tp.CB.InStats()
	fwd.ostats = tp.CA.OutStats()
	return
}

func sendAny(ctx context.Context, t lime.Transport, e interface{}) error {
	switch x := e.(type) {
	case *lime.Message:
		return t.Send(ctx, x)
	case *lime.Notification:
		return t.Send(ctx, x)
	case *lime.RequestCommand:
		return t.Send(ctx, x)
	case *lime.ResponseCommand:
		return t.Send(ctx, x)
	case *lime.Session:
		return t.Send(ctx, x)
	}
	panic(fmt.Sprintf("sendAny: %T", e))
}

// c12judge applies the oracle to one run.
func c12judge(r *core.Result, st c12stream, run c12run, pl c12plan, dir string) {
	tag := pl.name + dir
	destructive := pl.cutAt >= 0 || pl.wp.FailAt >= 0
	if run.hang {
		r.Violate("C12/hang/"+pl.name, fmt.Sprintf("plan %s: a Send/Receive did not finish within 30 s under faults that never block for that long", tag))
		return
	}
	if len(run.afterErr) > 0 {
		r.Violate("C12/envelope-after-error/"+pl.name, fmt.Sprintf("plan %s: Receive returned an error (%v) and later an envelope %v", tag, run.recvErr, run.afterErr))
	}
	// every received envelope must equal the one attempted at that position
	for i, e := range run.recv {
		if i >= len(st.envs) {
			r.Violate("C12/fabricated/"+pl.name, fmt.Sprintf("plan %s: received %d envelopes but only %d were sent; extra: %T id=%s", tag, len(run.recv), len(st.envs), e, getID(e)))
			break
		}
		if ok, where := gen.Eq(st.envs[i], e); !ok {
			key := "C12/corrupted/"
			if getID(e) != getID(st.envs[i]) {
				key = "C12/out-of-sequence/"
			}
			r.Violate(key+pl.name, fmt.Sprintf("plan %s: envelope #%d differs from what was sent at %s; sent=%s got id=%s kind=%s", tag, i, where, strings.TrimSpace(string(st.encs[i])), getID(e), gen.KindOf(e)))
			break
		}
	}
	if !destructive {
		for i, err := range run.sendErrs {
			if err != nil {
				r.Violate("C12/send-error-benign/"+pl.name, fmt.Sprintf("plan %s: Send #%d failed under benign faults: %v", tag, i, err))
				break
			}
		}
		if len(run.recv) != len(st.envs) {
			r.Violate("C12/lost-benign/"+pl.name, fmt.Sprintf("plan %s: sent %d envelopes, received %d (receive error: %v)", tag, len(st.envs), len(run.recv), run.recvErr))
		}
		if !pl.tls && dir == "" {
			if !bytes.Equal(run.wire, st.all) {
				r.Violate("C12/wire-bytes/"+pl.name, fmt.Sprintf("plan %s: bytes on the wire differ from the concatenation of the encodings of the acknowledged sends: wire %d bytes, expected %d; first difference at %d; wire around it: %q", tag, len(run.wire), len(st.all), firstDiff(run.wire, st.all), around(run.wire, firstDiff(run.wire, st.all))))
			}
		}
		if run.recvErr == nil && len(run.recv) == len(st.envs) && dir == "" {
			r.Violate("C12/no-error-after-close/"+pl.name, fmt.Sprintf("plan %s: Receive after the peer closed did not report an error", tag))
		}
		return
	}
	// destructive: received must be a prefix (checked above by position equality) containing every envelope fully on the wire before the cut
	cut := pl.cutAt
	if pl.wp.FailAt >= 0 {
		cut = pl.wp.FailAt
	}
	// lower bound: the leading sends that were acknowledged; upper bound: the envelopes whose JSON value was
	// completely on the wire before the cut (the trailing newline is not needed by the receiver)
	acked, complete, fully := 0, 0, 0
	for i, err := range run.sendErrs {
		if err != nil {
			break
		}
		acked = i + 1
	}
	for i, end := range st.ends {
		if end-1 <= cut {
			complete = i + 1
		}
		if end <= cut {
			fully = i + 1
		}
	}
	if len(run.recv) < acked {
		r.Violate("C12/lost-before-cut/"+pl.name, fmt.Sprintf("plan %s: %d sends were acknowledged before the cut at %d, only %d received (err %v)", tag, acked, cut, len(run.recv), run.recvErr))
	}
	if len(run.recv) > complete {
		r.Violate("C12/received-past-cut/"+pl.name, fmt.Sprintf("plan %s: %d envelopes received although only %d were completely on the wire before the cut at %d", tag, len(run.recv), complete, cut))
	}
	// the send that crosses the cut, and all later ones, must report an error
	for i, err := range run.sendErrs {
		if i >= fully && err == nil {
			r.Violate("C12/send-ok-past-cut/"+pl.name, fmt.Sprintf("plan %s: Send #%d returned nil although the stream was cut at %d (envelope ends at %d)", tag, i, cut, st.ends[i]))
			break
		}
		if i < fully && err != nil {
			r.Violate("C12/send-error-before-cut/"+pl.name, fmt.Sprintf("plan %s: Send #%d failed (%v) although it ends at %d before the cut at %d", tag, i, err, st.ends[i], cut))
			break
		}
	}
	if run.recvErr == nil {
		r.Violate("C12/no-error-after-cut/"+pl.name, fmt.Sprintf("plan %s: the receiver never got an error after the cut", tag))
	}
}

func firstDiff(a, b []byte) int {
	n := len(a)
	if len(b) < n {
		n = len(b)
	}
	for i := 0; i < n; i++ {
		if a[i] != b[i] {
			return i
		}
	}
	return n
}

func around(b []byte, i int) string {
	lo, hi := i-40, i+40
	if lo < 0 {
		lo = 0
	}
	if hi > len(b) {
		hi = len(b)
	}
	if lo > hi {
		lo = hi
	}
	return string(b[lo:hi])
}

func (p c12) Run(c core.Case) core.Result {
	gen.Register()
	var r core.Result
	r.Verdict = core.Held
	fpset := map[string]bool{}
	account := func(pl c12plan, st c12stream, fwd c12run) {
		r.Evals++
		r.Count("runs", 1)
		r.Count("envelopes_sent", len(st.envs))
		r.Count("envelopes_received", len(fwd.recv))
		r.Count("inj_read_timeouts", fwd.stats.InjReadTimeouts)
		r.Count("short_writes_partial", fwd.ostats.ShortWrites)
		r.Count("zero_write_timeouts", fwd.ostats.ZeroWrites)
		r.Count("split_reads", fwd.stats.SplitReads)
		r.Count("read_calls", fwd.stats.ReadCalls)
		r.Count("write_calls", fwd.ostats.WriteCalls)
		if pl.cutAt >= 0 || pl.wp.FailAt >= 0 {
			r.Count("cuts", 1)
		}
		if pl.tls {
			r.Count("tls_runs", 1)
		}
		if pl.nontriv {
			fpset[pl.name+"|"+fmt.Sprint(pl.rp.Splits, pl.rp.Chunk, pl.rp.RandMax, pl.rp.TimeoutAtCall, pl.rp.TimeoutProb, pl.wp.ShortAt, pl.wp.ShortRepeat, pl.wp.Chunk, pl.cutAt, pl.wp.FailAt, pl.rp.Seed, pl.tls, pl.bidir)] = true
		}
	}
	exec := func(st c12stream, back *c12stream, pl c12plan) {
		fwd, bwd, err := c12exec(st, back, pl)
		if err != nil {
			r.Violate("C12/setup/"+pl.name, err.Error())
			return
		}
		account(pl, st, fwd)
		c12judge(&r, st, fwd, pl, "")
		if back != nil && pl.bidir {
			plb := pl
			plb.cutAt = -1
			plb.wp.FailAt = -1
			if pl.cutAt >= 0 {
				// the reverse direction dies with the cut at an unknown position: only prefix/equality clauses apply
				for i, e := range bwd.recv {
					if i >= len(back.envs) {
						r.Violate("C12/fabricated/"+pl.name, "reverse direction: more envelopes than sent")
						break
					}
					if ok, where := gen.Eq(back.envs[i], e); !ok {
						r.Violate("C12/corrupted/"+pl.name, fmt.Sprintf("reverse direction: envelope #%d differs at %s", i, where))
						break
					}
				}
			} else {
				c12judge(&r, *back, bwd, plb, "/reverse")
			}
			r.Count("envelopes_received", len(bwd.recv))
		}
		if r.Sample == nil {
			r.Sample = map[string]interface{}{"plan": pl.name, "read_plan": pl.rp, "write_plan": pl.wp, "cut_at": pl.cutAt, "stream_bytes": len(st.all), "envelopes": len(st.envs), "first_envelope": strings.TrimSpace(string(st.encs[0])), "received": len(fwd.recv), "send_errors": countErrs(fwd.sendErrs), "receive_end": fmt.Sprint(fwd.recvErr)}
		}
	}

	switch c.Engine {
	case "split1":
		st := c12smallStream(4)
		for off := c.Int("lo", 0); off < c.Int("hi", 0) && int64(off) < int64(len(st.all)); off++ {
			if off == 0 {
				continue
			}
			exec(st, nil, c12plan{name: "split1", rp: faultconn.ReadPlan{Splits: []int64{int64(off)}}, wp: faultconn.WritePlan{FailAt: -1}, cutAt: -1, nontriv: true})
		}
	case "split2":
		st := c12smallStream(3)
		n := len(st.all)
		for a := c.Int("lo", 0); a < c.Int("hi", 0) && a < n; a++ {
			if a == 0 {
				continue
			}
			for b := a + 1; b < n; b++ {
				exec(st, nil, c12plan{name: "split2", rp: faultconn.ReadPlan{Splits: []int64{int64(a), int64(b)}}, wp: faultconn.WritePlan{FailAt: -1}, cutAt: -1, nontriv: true})
			}
		}
	case "short":
		size := 0
		if c.Bool("big") {
			size = 2048
		}
		st := c12mkStream(gen.New(5), 3, []int{20, size, 30})
		if !c.Bool("big") {
			st = c12smallStream(3)
		}
		start := st.ends[0]
		ln := int(st.ends[1] - st.ends[0])
		for k := c.Int("lo", 0); k < c.Int("hi", 0) && k < ln; k++ {
			exec(st, nil, c12plan{name: fmt.Sprintf("short-r%d", c.Int("repeat", 0)), wp: faultconn.WritePlan{ShortAt: []int64{start + int64(k)}, ShortRepeat: c.Int("repeat", 0), FailAt: -1}, cutAt: -1, nontriv: true})
		}
	case "short2":
		// two short writes (each followed by a transient timeout) inside one envelope's single Write call
		st := c12smallStream(3)
		start := st.ends[0]
		ln := int(st.ends[1] - st.ends[0])
		for k1 := c.Int("lo", 0); k1 < c.Int("hi", 0) && k1 < ln; k1++ {
			for k2 := k1 + 1; k2 < ln; k2++ {
				exec(st, nil, c12plan{name: "short2", wp: faultconn.WritePlan{ShortAt: []int64{start + int64(k1), start + int64(k2)}, FailAt: -1}, cutAt: -1, nontriv: true})
			}
		}
	case "rxexpire":
		// a Receive whose context expires while the envelope is only partly there, followed by another Receive
		// once the rest has arrived: the second Receive may fail, or return the intact envelope - nothing else.
		msg := &lime.Message{}
		msg.ID = "s0"
		msg.SetContent(&lime.JsonDocument{"job": "42", "nested": map[string]interface{}{"id": "zz", "state": "finished"}, "evt": map[string]interface{}{"id": "n1", "event": "failed"}})
		enc, _ := json.Marshal(msg)
		enc = append(enc, '\n')
		follow := c12smallStream(2)
		pre := c12smallStream(1)
		for kk := 2 * c.Int("lo", 0); kk < 2*c.Int("hi", 0) && kk/2 < len(enc); kk++ {
			// odd kk: the head of the envelope arrives in the same read as a complete predecessor (the decoder holds it
			// in its read-ahead buffer when the next Receive's context expires)
			k, withPre := kk/2, kk%2 == 1
			if k == 0 {
				continue
			}
			tp := rig.NewTransportPair(faultconn.Options{}, nil, nil)
			if withPre {
				_, _ = tp.CA.Write(append(append([]byte{}, pre.all...), enc[:k]...))
				pctx, pc := context.WithTimeout(context.Background(), 5*time.Second)
				penv, perr := tp.B.Receive(pctx)
				pc()
				if perr != nil {
					r.Violate("C12/lost-benign/rxexpire", fmt.Sprintf("the complete envelope that precedes a partial one in the same read was not handed over: %v", perr))
				} else if ok, where := gen.Eq(pre.envs[0], penv); !ok {
					r.Violate("C12/corrupted/rxexpire", fmt.Sprintf("the envelope preceding a partial one differs at %s", where))
				}
			} else {
				_, _ = tp.CA.Write(enc[:k])
			}
			ctx, cancel := context.WithTimeout(context.Background(), 12*time.Millisecond)
			env, err := tp.B.Receive(ctx)
			cancel()
			r.Evals++
			r.Count("runs", 1)
			r.Count("rxexpire_runs", 1)
			fpset[fmt.Sprintf("rxexpire|%d|%v", k, withPre)] = true
			if err == nil {
				// complete already? only legitimate if the value was complete at k
				if ok, where := gen.Eq(msg, env); !ok {
					r.Violate("C12/corrupted/rxexpire", fmt.Sprintf("first Receive with %d of %d bytes present returned an envelope differing at %s", k, len(enc), where))
				}
			}
			_, _ = tp.CA.Write(enc[k:])
			_, _ = tp.CA.Write(follow.all)
			expect := []interface{}{msg, follow.envs[0], follow.envs[1]}
			if err == nil {
				expect = expect[1:]
			}
			for i := 0; i < len(expect); i++ {
				ctx2, cancel2 := context.WithTimeout(context.Background(), 5*time.Second)
				env2, err2 := tp.B.Receive(ctx2)
				cancel2()
				if err2 != nil {
					r.Count("rxexpire_latched_error", 1)
					break
				}
				r.Count("envelopes_received", 1)
				if ok, where := gen.Eq(expect[i], env2); !ok {
					b, _ := json.Marshal(env2)
					r.Violate("C12/fabricated/rxexpire", fmt.Sprintf("after a Receive whose context expired with %d of %d bytes of an envelope present, the next Receive #%d returned %s (%s), which is not the envelope sent at that position (differs at %s)", k, len(enc), i, gen.KindOf(env2), b, where))
					break
				}
			}
			tp.Close()
		}
	case "cut":
		st := c12smallStream(4)
		for off := c.Int("lo", 0); off < c.Int("hi", 0) && off <= len(st.all); off++ {
			exec(st, nil, c12plan{name: "cut", wp: faultconn.WritePlan{FailAt: -1}, cutAt: int64(off), nontriv: true})
			// the same cut with fragmented reads
			exec(st, nil, c12plan{name: "cut-frag", rp: faultconn.ReadPlan{Chunk: 7}, wp: faultconn.WritePlan{FailAt: -1}, cutAt: int64(off), nontriv: true})
		}
	case "coalesce":
		for n := 2; n <= 5; n++ {
			for rep := 0; rep < 4; rep++ {
				st := c12mkStream(gen.New(uint64(100+n*10+rep)), n, nil)
				exec(st, nil, c12plan{name: "coalesce", wp: faultconn.WritePlan{FailAt: -1}, cutAt: -1, coalesce: true, nontriv: true})
				exec(st, nil, c12plan{name: "coalesce-then-frag", rp: faultconn.ReadPlan{Chunk: 3 + rep}, wp: faultconn.WritePlan{FailAt: -1}, cutAt: -1, coalesce: true, nontriv: true})
			}
		}
	case "readtimeout":
		st := c12smallStream(4)
		for call := 0; call < 40; call++ {
			exec(st, nil, c12plan{name: "readtimeout", rp: faultconn.ReadPlan{Chunk: 16, TimeoutAtCall: []int{call, call + 1}}, wp: faultconn.WritePlan{FailAt: -1}, cutAt: -1, nontriv: true})
		}
	case "tlsclose":
		p.tlsClose(&r, c)
	case "afterreject":
		p.afterReject(&r, c)
	case "partialsend":
		p.partialSend(&r, c)
	case "loopstream":
		p.loopStream(&r, c)
	case "random", "tls":
		rng := core.NewRng(c.Seed)
		for i := 0; i < c.Int("n", 10); i++ {
			g := gen.New(rng.Uint64())
			n := 5 + rng.Intn(46)
			if c.Engine == "tls" {
				n = 3 + rng.Intn(20)
			}
			var sizes []int
			if c.Bool("big") && i == 0 {
				n = 6
				sizes = []int{0, 256 * 1024, 0, 70000, 1, 0}
			} else if rng.Chance(1, 4) {
				sizes = make([]int, n)
				for j := range sizes {
					if rng.Chance(1, 5) {
						sizes[j] = 1 + rng.Intn(20000)
					}
				}
			}
			st := c12mkStream(g, n, sizes)
			total := int64(len(st.all))
			pl := c12plan{name: c.Engine, cutAt: -1, wp: faultconn.WritePlan{FailAt: -1}, tls: c.Engine == "tls"}
			pl.rp.Seed = rng.Uint64()
			switch rng.Intn(4) {
			case 0:
				pl.rp.RandMax = 1 + rng.Intn(64)
			case 1:
				pl.rp.Chunk = 1 + rng.Intn(9)
			case 2:
				for k := 0; k < 1+rng.Intn(12); k++ {
					pl.rp.Splits = append(pl.rp.Splits, 1+int64(rng.Intn(int(total))))
				}
			}
			if rng.Chance(1, 2) {
				pl.rp.TimeoutProb = 1 + rng.Intn(30)
			}
			if rng.Chance(1, 3) {
				pl.rp.StallProb = 5
				pl.rp.StallUS = 50 + rng.Intn(2000)
			}
			if !pl.tls {
				if rng.Chance(1, 2) {
					for k := 0; k < 1+rng.Intn(6); k++ {
						pl.wp.ShortAt = append(pl.wp.ShortAt, int64(rng.Intn(int(total))))
					}
					pl.wp.ShortRepeat = rng.Intn(3)
				}
				if rng.Chance(1, 4) {
					pl.wp.Chunk = 1 + rng.Intn(50)
				}
			}
			if rng.Chance(1, 5) {
				pl.capacity = 1 + rng.Intn(256)
			}
			if rng.Chance(1, 5) {
				pl.cutAt = int64(rng.Intn(int(total) + 1))
			}
			if sizes != nil && len(sizes) == 6 && sizes[1] == 256*1024 {
				// a third of a megabyte in one-byte reads with stalls takes minutes for no library reason:
				// large envelopes get coarser (still irregular) fragmentation
				if pl.rp.RandMax > 0 {
					pl.rp.RandMax = 2048 + 64*pl.rp.RandMax
				}
				if pl.rp.Chunk > 0 {
					pl.rp.Chunk = 997 * pl.rp.Chunk
				}
				if pl.rp.TimeoutProb > 5 {
					pl.rp.TimeoutProb = 5
				}
				pl.rp.StallProb = 0
				if pl.wp.Chunk > 0 {
					pl.wp.Chunk = 1500 + 100*pl.wp.Chunk
				}
				if pl.capacity > 0 {
					pl.capacity = 4096 + 16*pl.capacity
				}
			}
			pl.nontriv = true
			var back *c12stream
			if rng.Chance(1, 4) {
				pl.bidir = true
				b := c12mkStream(gen.New(rng.Uint64()), 3+rng.Intn(20), nil)
				back = &b
			}
			if pl.tls && pl.cutAt >= 0 {
				// under TLS the plaintext offsets do not map to wire offsets: a cut lands at an arbitrary record position;
				// only the prefix/equality/error clauses are judged
				fwd, _, err := c12exec(st, nil, pl)
				if err != nil {
					r.Violate("C12/setup/tls", err.Error())
					continue
				}
				account(pl, st, fwd)
				for j, e := range fwd.recv {
					if j >= len(st.envs) {
						r.Violate("C12/fabricated/tls-cut", "more envelopes than sent")
						break
					}
					if ok, where := gen.Eq(st.envs[j], e); !ok {
						r.Violate("C12/corrupted/tls-cut", fmt.Sprintf("envelope #%d differs at %s", j, where))
						break
					}
				}
				if len(fwd.afterErr) > 0 {
					r.Violate("C12/envelope-after-error/tls-cut", fmt.Sprint(fwd.afterErr))
				}
				continue
			}
			exec(st, back, pl)
		}
	}
	for k := range fpset {
		r.Fingerprints = append(r.Fingerprints, k)
	}
	return r
}

func countErrs(errs []error) int {
	n := 0
	for _, e := range errs {
		if e != nil {
			n++
		}
	}
	return n
}

// tlsClose: k envelopes, then the sender closes its transport; the receiver starts reading only when all of it (data
// records and the close alert) has arrived. Every envelope must be handed over before the end of the stream is reported.
func (p c12) tlsClose(r *core.Result, c core.Case) {
	rng := core.NewRng(c.Seed)
	ver := c.Str("version", "1.3")
	for round := 0; round < c.Int("n", 6); round++ {
		ccfg := rig.ClientTLS()
		if ver == "1.2" {
			ccfg.MaxVersion = tls.VersionTLS12
		}
		tp := rig.NewTransportPair(faultconn.Options{}, &lime.TCPConfig{TLSConfig: ccfg}, &lime.TCPConfig{TLSConfig: rig.ServerTLS()})
		ctx, cancel := context.WithTimeout(context.Background(), 20*time.Second)
		var wg sync.WaitGroup
		var e1, e2 error
		wg.Add(2)
		go func() { defer wg.Done(); e1 = tp.A.SetEncryption(ctx, lime.SessionEncryptionTLS) }()
		go func() { defer wg.Done(); e2 = tp.B.SetEncryption(ctx, lime.SessionEncryptionTLS) }()
		wg.Wait()
		if e1 != nil || e2 != nil {
			cancel()
			tp.Close()
			r.Verdict = core.Inconclusive
			r.Note = fmt.Sprintf("tls setup: %v / %v", e1, e2)
			return
		}
		k := 1 + rng.Intn(5)
		st := c12mkStream(gen.New(rng.Uint64()), k, nil)
		tp.CB.Hold()
		sendOK := 0
		for _, e := range st.envs {
			if sendAny(ctx, tp.A, e) == nil {
				sendOK++
			}
		}
		closed := make(chan struct{})
		go func() { _ = tp.A.Close(); close(closed) }()
		// the close alert is on its way once the sender's connection reports its writing side closed
		for i := 0; i < 2000 && !tp.CB.PeerClosed(); i++ {
			time.Sleep(200 * time.Microsecond)
		}
		tp.CB.Release()
		got := 0
		var rerr error
		for got < k+1 {
			env, err := tp.B.Receive(ctx)
			if err != nil {
				rerr = err
				break
			}
			if got < k {
				if ok, where := gen.Eq(st.envs[got], env); !ok {
					r.Violate("C12/tlsclose/not-equal", fmt.Sprintf("TLS %s, %d envelopes then close: envelope #%d differs at %s", ver, k, got, where))
				}
			}
			got++
		}
		cancel()
		r.Evals++
		r.Count("runs", 1)
		r.Count("tlsclose_runs", 1)
		r.Count("envelopes_acknowledged", sendOK)
		r.Count("envelopes_received", got)
		if got < sendOK {
			r.Violate("C12/tlsclose/lost-before-close", fmt.Sprintf("TLS %s: the sender reported %d envelopes as sent and closed; the receiver (reading after everything had arrived) was handed %d and then %v", ver, sendOK, got, rerr))
		}
		if got > k {
			r.Violate("C12/tlsclose/fabricated", fmt.Sprintf("TLS %s: %d envelopes sent, %d received", ver, k, got))
		}
		_ = tp.B.Close()
		<-closed
		r.Fingerprints = append(r.Fingerprints, fmt.Sprintf("tlsclose|%s|%d", ver, k))
	}
}

// afterReject: a value that is well-formed JSON but not a valid envelope is rejected by Receive; the envelope that
// follows it on the same connection must be handed over exactly as it was sent (nothing of the rejected one in it).
func (p c12) afterReject(r *core.Result, c core.Case) {
	bads := []string{
		`{"id":"bad1","from":"a@b/c","to":"alice@d.e/home","pp":"p@q/r","metadata":{"#secret":"42"},"type":"","content":"x"}`,
		`{"id":"bad2","to":"alice@d.e/home","metadata":{"k":"v"},"event":"zzz"}`,
		`{"id":"bad3","from":"a@b/c","pp":"p@q/r","method":"zzz","uri":"/x"}`,
		`{"id":"bad4","to":"x@y/z","from":"s@t/u","state":"zzz"}`,
		`{"id":"bad5","to":"x@y/z","reason":{"code":7,"description":"leftover"},"metadata":{"a":"b"},"method":"get","status":"zzz"}`,
		`{"id":"bad6","from":"a@b/c","to":"x@y/z","type":"application/json","content":{"k":1},"method":"get"}`,
		`{"id":"bad7","to":"x@y/z","metadata":{"m":"n"},"content":"no type"}`,
	}
	oks := []struct{ kind, js string }{
		{"notification", `{"id":"ok1","event":"received"}`},
		{"session", `{"id":"ok2","state":"finishing"}`},
		{"response", `{"id":"ok3","method":"get","status":"success"}`},
		{"message", `{"id":"ok4","type":"text/plain","content":"hi"}`},
		{"request", `{"id":"ok5","method":"get","uri":"/ping"}`},
		{"notification", `{"id":"ok6","event":"failed","reason":{"code":1,"description":"own"}}`},
	}
	for bi, bad := range bads {
		for oi, ok := range oks {
			for _, chunk := range []int{0, 1, 7} {
				want, err := c01typedDecode(ok.kind, []byte(ok.js))
				if err != nil {
					continue
				}
				tp := rig.NewTransportPair(faultconn.Options{}, nil, nil)
				if chunk > 0 {
					tp.CB.SetReadPlan(faultconn.ReadPlan{Chunk: chunk})
				}
				go func() { _, _ = tp.CA.Write([]byte(bad + "\n" + ok.js + "\n")) }()
				ctx, cancel := context.WithTimeout(context.Background(), 20*time.Second)
				_, err1 := tp.B.Receive(ctx)
				got, err2 := tp.B.Receive(ctx)
				cancel()
				r.Evals++
				r.Count("runs", 1)
				r.Count("afterreject_runs", 1)
				tag := fmt.Sprintf("rejected value #%d %s then %s (read chunk %d)", bi, bad, ok.js, chunk)
				switch {
				case err1 == nil:
					r.Count("afterreject_first_accepted", 1)
				case err2 != nil:
					// the transport may also refuse to go on after a rejected value: then nothing is handed over at all
					r.Count("afterreject_second_refused", 1)
				default:
					r.Count("afterreject_second_received", 1)
					if same, where := gen.Eq(want, got); !same {
						r.Violate("C12/afterreject/corrupted/"+ok.kind, fmt.Sprintf("%s: the envelope handed over after the rejected value differs from what was sent at %s", tag, where))
					}
				}
				tp.Close()
				r.Fingerprints = append(r.Fingerprints, fmt.Sprintf("afterreject|%d|%d|%d", bi, oi, chunk))
			}
		}
	}
}

// loopStream: a real listener and a real dialer (plain TCP), a stream in each direction whose total size is many
// times the read limit, every envelope within it.
func (p c12) loopStream(r *core.Result, c core.Case) {
	const L = 4096
	l := lime.NewTCPTransportListener(&lime.TCPConfig{ReadLimit: L})
	if err := l.Listen(context.Background(), &net.TCPAddr{IP: net.IPv4(127, 0, 0, 1), Port: 0}); err != nil {
		r.Verdict = core.Inconclusive
		r.Note = "cannot listen on loopback: " + err.Error()
		return
	}
	defer l.Close()
	ctx, cancel := context.WithTimeout(context.Background(), 60*time.Second)
	defer cancel()
	type acc struct {
		t   lime.Transport
		err error
	}
	ach := make(chan acc, 1)
	go func() { t, err := l.Accept(ctx); ach <- acc{t, err} }()
	a, err := lime.DialTcp(ctx, lime.VerifListenerAddr(l), &lime.TCPConfig{ReadLimit: L})
	if err != nil {
		r.Verdict = core.Inconclusive
		r.Note = err.Error()
		return
	}
	ac := <-ach
	if ac.err != nil {
		r.Verdict = core.Inconclusive
		r.Note = ac.err.Error()
		_ = a.Close()
		return
	}
	b := ac.t
	g := gen.New(c.Seed)
	run := func(dir string, from, to lime.Transport) {
		st := c12mkStream(g, 400, nil)
		go func() {
			for _, e := range st.envs {
				if sendAny(ctx, from, e) != nil {
					return
				}
			}
		}()
		for i := range st.envs {
			got, err := to.Receive(ctx)
			r.Count("envelopes_received", 1)
			if err != nil {
				r.Violate("C12/loopstream/receive-error/"+dir, fmt.Sprintf("real sockets, %s: envelope #%d of %d (%d bytes received so far, read limit %d, every envelope within it) was not handed over: %v", dir, i, len(st.envs), st.ends[i]-int64(len(st.encs[i])), L, err))
				return
			}
			if same, where := gen.Eq(st.envs[i], got); !same {
				r.Violate("C12/loopstream/not-equal/"+dir, fmt.Sprintf("real sockets, %s: envelope #%d differs at %s", dir, i, where))
				return
			}
		}
	}
	r.Evals++
	r.Count("runs", 1)
	run("dialer-to-accepted", a, b)
	run("accepted-to-dialer", b, a)
	done := make(chan struct{})
	go func() { _ = a.Close(); close(done) }()
	_ = b.Close()
	<-done
	r.Fingerprints = append(r.Fingerprints, "loopstream|tcp")
}

// partialSend: envelopes are sent; optionally one Send gets a context that is already done (nothing written); then the
// peer stops reading and a Send's context ends after the connection has taken only the first bytes of its envelope;
// the peer reads again and the application keeps sending. The receiver must be handed exactly the envelopes whose Send
// returned nil, in order, each intact - after a partial envelope no later Send may report success.
func (p c12) partialSend(r *core.Result, c core.Case) {
	for _, capacity := range []int{1, 17, 64, 300} {
		for _, withDone := range []bool{false, true} {
			tp := rig.NewTransportPair(faultconn.Options{CapAtoB: capacity}, nil, nil)
			type rec struct {
				id string
				ok bool
			}
			var acked []string
			send := func(ctx context.Context, id string, size int) error {
				m := &lime.Message{}
				m.ID = id
				m.SetContent(lime.TextDocument(strings.Repeat("z", size)))
				err := tp.A.Send(ctx, m)
				if err == nil {
					acked = append(acked, id)
				}
				return err
			}
			var rmu sync.Mutex
			var got []string
			var rerr error
			rdone := make(chan struct{})
			go func() {
				defer close(rdone)
				for {
					ctx, cancel := context.WithTimeout(context.Background(), 20*time.Second)
					env, err := tp.B.Receive(ctx)
					cancel()
					rmu.Lock()
					if err != nil {
						rerr = err
						rmu.Unlock()
						return
					}
					got = append(got, getID(env))
					rmu.Unlock()
				}
			}()
			long, lc := context.WithTimeout(context.Background(), 20*time.Second)
			_ = send(long, "m1", 10)
			if withDone {
				dead, dc := context.WithCancel(context.Background())
				dc()
				_ = send(dead, "never-written", 10)
			}
			_ = send(long, "m2", 10)
			// wait until the receiver has taken everything, then stop it from reading
			for i := 0; i < 5000 && tp.CB.Buffered() > 0; i++ {
				time.Sleep(200 * time.Microsecond)
			}
			time.Sleep(2 * time.Millisecond)
			tp.CB.Hold()
			short, sc := context.WithTimeout(context.Background(), 40*time.Millisecond)
			perr := send(short, "partial", 2000)
			sc()
			tp.CB.Release()
			e4 := send(long, "m4", 10)
			e5 := send(long, "m5", 10)
			lc()
			_ = tp.CA.Close()
			select {
			case <-rdone:
			case <-time.After(30 * time.Second):
			}
			rmu.Lock()
			r.Evals++
			r.Count("runs", 1)
			r.Count("partialsend_runs", 1)
			r.Count("envelopes_acknowledged", len(acked))
			r.Count("envelopes_received", len(got))
			tag := fmt.Sprintf("connection capacity %d, done-context send first: %v; the partial send returned %v, the two sends after it %v / %v", capacity, withDone, perr, e4, e5)
			if perr != nil {
				r.Count("partial_sends_failed", 1)
			}
			if !reflect.DeepEqual(acked, got) {
				r.Violate("C12/partialsend/acknowledged-differs-from-received", fmt.Sprintf("%s: Send returned nil for %v, the receiver was handed %v and then %v", tag, acked, got, rerr))
			}
			rmu.Unlock()
			tp.Close()
			r.Fingerprints = append(r.Fingerprints, fmt.Sprintf("partialsend|%d|%v", capacity, withDone))
		}
	}
}
