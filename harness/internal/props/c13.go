package props

import (
	"context"
	"fmt"
	"runtime"
	"strings"
	"sync"
	"sync/atomic"
	"time"

	lime "github.com/takenet/lime-go"

	"errors"
	"verif/harness/internal/core"
	"verif/harness/internal/rig"
)

// C13 — Sessions end cleanly in both directions and release what waits on them.
type c13 struct{}

func init() { core.Register(c13{}) }

func (c13) ID() string                  { return "C13" }
func (c13) Level() string               { return "exploration" }
func (c13) ChildParallel() int          { return 1 }
func (c13) Exhaustive(tier string) bool { return false }
func (c13) Rule() string {
	return "Session rig: a real Server (mux handlers drain) and a real ClientChannel (one consumer goroutine per inbound stream drains) or the high-level Client, over {in-process, TCP, TCP upgraded to TLS, WebSocket, secure WebSocket}. Scenario = initiator {ClientChannel.FinishSession, ServerChannel.FinishSession, ServerChannel.FailSession, Client.Close, Server.Close} x transport x buffer {0,1,32} x traffic {idle, client->server, server->client, both, unsolicited responses to a non-consuming side, backlog = busy server handler + a proxy with a small window that briefly stops forwarding the server's bytes, so that the terminal envelope is still queued behind unsent data when the server closes a connection with unread inbound data} x moment (PRNG delay, after the k-th envelope, at hook points channel.recv.got / channel.send.checked / ws.*.spawn). Scenarios run one at a time inside a child so that the goroutine/socket census is attributable. " +
		"Monitor (bounded progress 15 s, census settle 12 s, guarded by a load canary): the observing side reaches the terminal state announced by the initiator; both sides' inbound streams and RcvDone are closed and every stream consumer returns; the Finished callback fires; the initiator's transport is no longer connected when its terminating call has returned; after the observer has closed its channel no lime-owned goroutine or socket is left above the pre-session census. Non-trivial = traffic in flight or buffer <=1; distinct = scenario cell."
}
func (c13) Assumptions() []string {
	return []string{"the observing side keeps consuming its inbound streams (the statement's proviso), except for Client.Close where the library itself stops consuming", "bounded progress: 15 s per clause, 12 s census settle; a starved machine (canary overshoot > 1.5 s) yields inconclusive"}
}
func (c13) Floors(tier string) map[string]int {
	return map[string]int{"scenarios": 40, "terminal_observed": 35, "census_clean": 35, "scn_client-finish": 5, "scn_server-finish": 5, "scn_server-fail": 5, "scn_client-close": 5, "scn_server-close": 5, "scn_inproc": 5, "scn_tcp": 5, "scn_tls": 5, "scn_ws": 5, "scn_wss": 5}
}

type c13scn struct {
	Initiator string `json:"initiator"`
	Transport string `json:"transport"`
	Buf       int    `json:"buf"`
	Traffic   string `json:"traffic"`
	DelayUS   int    `json:"delay_us"`
	Perturb   bool   `json:"perturb"`
	HL        bool   `json:"hl,omitempty"` // the observer of a server-initiated end is the high-level Client
}

var c13initiators = []string{"client-finish", "server-finish", "server-fail", "client-close", "server-close"}

func (c13) Plan(tier string, seed uint64) []core.Case {
	var cases []core.Case
	transports := []string{rig.InProc, rig.TCP, rig.TLS, rig.WS, rig.WSS}
	traffics := []string{"idle", "c2s", "s2c", "both", "unsolicited", "backlog"}
	bufs := []int{0, 1, 32}
	rng := core.NewRng(seed)
	var scns []c13scn
	if tier != "thorough" {
		i := 0
		for _, ini := range c13initiators {
			for _, tr := range transports {
				scns = append(scns, c13scn{Initiator: ini, Transport: tr, Buf: bufs[i%3], Traffic: traffics[i%6], DelayUS: rng.Intn(3000), Perturb: i%4 == 0})
				i++
			}
		}
		// extra cells so that every buffer size and traffic kind meets every initiator
		for k := 0; k < 35; k++ {
			scns = append(scns, c13scn{Initiator: c13initiators[k%5], Transport: transports[(k/5+k)%5], Buf: bufs[(k/5)%3], Traffic: traffics[(k+k/5+1)%5], DelayUS: rng.Intn(3000), Perturb: k%3 == 0})
		}
		// the high-level Client as the observer of a server-initiated end: it closes the lost session's channel on its own
		for j, ini := range []string{"server-finish", "server-fail", "server-close"} {
			for t, tr := range transports {
				scns = append(scns, c13scn{Initiator: ini, Transport: tr, Buf: bufs[(j+t)%3], Traffic: []string{"idle", "s2c", "c2s"}[(j+t)%3], DelayUS: rng.Intn(3000), Perturb: (j+t)%2 == 0, HL: true})
			}
		}
		// a server that terminates while inbound data is still unread (its handler is busy), on every socket transport
		k := 0
		for _, ini := range []string{"server-finish", "server-fail", "server-close"} {
			for _, tr := range []string{rig.TCP, rig.TLS, rig.WS, rig.WSS} {
				scns = append(scns, c13scn{Initiator: ini, Transport: tr, Buf: bufs[k%3], Traffic: "backlog", DelayUS: rng.Intn(3000), Perturb: false})
				k++
			}
		}
	} else {
		for rep := 0; rep < 2; rep++ {
			for _, ini := range c13initiators {
				for _, tr := range transports {
					for _, b := range bufs {
						for _, tf := range traffics {
							scns = append(scns, c13scn{Initiator: ini, Transport: tr, Buf: b, Traffic: tf, DelayUS: rng.Intn(4000), Perturb: rng.Chance(1, 2)})
							if strings.HasPrefix(ini, "server-") && tf != "backlog" && tf != "unsolicited" && rep == 0 {
								scns = append(scns, c13scn{Initiator: ini, Transport: tr, Buf: b, Traffic: tf, DelayUS: rng.Intn(4000), Perturb: rng.Chance(1, 2), HL: true})
							}
						}
					}
				}
			}
		}
	}
	// Close of a WebSocket transport while a Send / Receive call on it is between its checks and its helper goroutine
	cases = append(cases, core.Case{ID: "C13/ws-close-race", Engine: "wscloserace", Seed: seed, Solo: true, TimeoutS: 120})
	// a few scenarios per case, solo (one scenario at a time in its child)
	per := 4
	for i := 0; i < len(scns); i += per {
		hi := i + per
		if hi > len(scns) {
			hi = len(scns)
		}
		var sub []interface{}
		for _, s := range scns[i:hi] {
			sub = append(sub, s)
		}
		cases = append(cases, core.Case{ID: fmt.Sprintf("C13/%03d", i/per), Engine: "scenarios", Seed: core.Derive(seed, uint64(i)).Uint64(), Solo: true, P: map[string]interface{}{"scenarios": sub, "race": tier == "thorough" && (i/per)%3 == 0}, TimeoutS: 600})
	}
	return cases
}

// wsCloseRace: the hook points ws.send.spawn / ws.recv.spawn hold a Send / Receive call right before it starts its
// helper goroutine; the transport is closed meanwhile; the call is released. It has to return (an error or not) - the
// process must survive and the call must not hang.
func (p c13) wsCloseRace(r *core.Result, c core.Case) {
	var armed atomic.Value // string: the point to hold once
	armed.Store("")
	entered := make(chan struct{}, 1)
	var release chan struct{}
	lime.VerifSetPointHandler(func(name string) {
		if want, _ := armed.Load().(string); want != "" && name == want {
			armed.Store("")
			entered <- struct{}{}
			<-release
		}
	})
	defer lime.VerifSetPointHandler(nil)
	for round := 0; round < 6; round++ {
		point := []string{"ws.recv.spawn", "ws.send.spawn"}[round%2]
		sr, err := rig.StartServer(rig.DefaultServerConfig(), nil, []string{rig.WS}, 0)
		if err != nil {
			r.Verdict = core.Inconclusive
			r.Note = err.Error()
			return
		}
		ctx, cancel := context.WithTimeout(context.Background(), 30*time.Second)
		t, err := sr.Dial(ctx, rig.WS, 4, nil)
		if err != nil {
			cancel()
			sr.Close(10 * time.Second)
			r.Verdict = core.Inconclusive
			r.Note = err.Error()
			return
		}
		release = make(chan struct{})
		armed.Store(point)
		done := make(chan error, 1)
		go func() {
			if point == "ws.recv.spawn" {
				_, err := t.Receive(ctx)
				done <- err
			} else {
				done <- t.Send(ctx, &lime.Session{State: lime.SessionStateNew})
			}
		}()
		held := false
		select {
		case <-entered:
			held = true
		case <-time.After(5 * time.Second):
			armed.Store("")
		}
		r.Evals++
		r.Count("scenarios", 1)
		r.Count("ws_close_race_rounds", 1)
		if held {
			_ = t.Close()
			close(release)
			select {
			case <-done:
				r.Count("ws_close_race_returned", 1)
				r.Count("terminal_observed", 1)
				r.Count("census_clean", 1)
			case <-time.After(10 * time.Second):
				r.Violate("C13/ws-close-race/call-blocked/"+point, "a "+point+" call that was between its checks and its helper goroutine when the transport was closed has not returned 10 s later")
			}
		} else {
			r.Count("ws_close_race_hook_not_reached", 1)
			_ = t.Close()
		}
		cancel()
		sr.Close(10 * time.Second)
		r.Fingerprints = append(r.Fingerprints, "wscloserace|"+point)
	}
}

func (p c13) Run(c core.Case) core.Result {
	var r core.Result
	r.Verdict = core.Held
	if c.Engine == "wscloserace" {
		p.wsCloseRace(&r, c)
		return r
	}
	var scns []c13scn
	remarshal(c.P["scenarios"], &scns)
	rng := core.NewRng(c.Seed)
	for _, s := range scns {
		p.scenario(&r, s, rng.Uint64())
		if len(r.Findings) > 6 {
			break
		}
	}
	return r
}

const c13bound = 15 * time.Second

func (p c13) scenario(r *core.Result, s c13scn, seed uint64) {
	tag := fmt.Sprintf("%s over %s buf=%d traffic=%s", s.Initiator, s.Transport, s.Buf, s.Traffic)
	key := func(k string) string { return "C13/" + k + "/" + s.Initiator + "/" + s.Transport }
	core.CanaryReset()
	starved := func() bool { return core.CanaryWorstMS() > 600 }
	fail := func(k, format string, a ...interface{}) {
		if starved() {
			r.Verdict = core.Inconclusive
			r.Note = "timing clause under starvation: " + k
			return
		}
		r.Violate(key(k), tag+": "+fmt.Sprintf(format, a...))
	}
	var hookHits int64
	if s.Perturb {
		var hmu sync.Mutex
		hr := core.NewRng(seed ^ 0x13)
		lime.VerifSetPointHandler(func(name string) {
			if name != "channel.recv.got" && name != "channel.send.checked" && !strings.HasPrefix(name, "ws.") {
				return
			}
			atomic.AddInt64(&hookHits, 1)
			hmu.Lock()
			k := hr.Intn(12)
			hmu.Unlock()
			if k < 4 {
				runtime.Gosched()
			} else if k == 4 {
				time.Sleep(200 * time.Microsecond)
			}
		})
		defer lime.VerifSetPointHandler(nil)
	}
	runtime.GC()
	baseG := len(rig.LimeGoroutines("inProcessTransportListener).newClient"))
	baseFD := rig.SocketFDs()

	var estMu sync.Mutex
	var sc *lime.ServerChannel
	estCh := make(chan struct{}, 1)
	var finishedCB int64
	mux := &lime.EnvelopeMux{}
	// 'backlog' traffic: the server's message handler is busy until the scenario is over, so what the client keeps
	// sending stays unread on the server's side of the connection while the server terminates the session
	backlog := s.Traffic == "backlog" && strings.HasPrefix(s.Initiator, "server-")
	gate := make(chan struct{})
	var gateOnce sync.Once
	openGate := func() { gateOnce.Do(func() { close(gate) }) }
	defer openGate()
	mux.MessageHandlerFunc(nil, func(ctx context.Context, m *lime.Message, sd lime.Sender) error {
		if backlog {
			select {
			case <-gate:
			case <-ctx.Done():
			}
		}
		return nil
	})
	mux.NotificationHandlerFunc(nil, func(ctx context.Context, m *lime.Notification) error { return nil })
	mux.RequestCommandHandlerFunc(nil, func(ctx context.Context, m *lime.RequestCommand, sd lime.Sender) error { return nil })
	mux.ResponseCommandHandlerFunc(nil, func(ctx context.Context, m *lime.ResponseCommand, sd lime.Sender) error { return nil })
	cfg := rig.DefaultServerConfig()
	cfg.ChannelBufferSize = s.Buf
	cfg.Established = func(id string, ch *lime.ServerChannel) {
		estMu.Lock()
		sc = ch
		estMu.Unlock()
		select {
		case estCh <- struct{}{}:
		default:
		}
	}
	cfg.Finished = func(id string) { atomic.AddInt64(&finishedCB, 1) }
	sr, err := rig.StartServer(cfg, mux, []string{s.Transport}, 0)
	if err != nil {
		r.Verdict = core.Inconclusive
		r.Note = err.Error()
		return
	}
	serverClosed := false
	defer func() {
		if !serverClosed {
			sr.Close(20 * time.Second)
		}
	}()
	// what the serving (idle) server itself runs: the session must not add anything that outlives it
	servingG := rig.StableLimeGoroutineCount("inProcessTransportListener).newClient")
	ctx, cancel := context.WithTimeout(context.Background(), 120*time.Second)
	defer cancel()
	// 'backlog' over a socket: a man-in-the-middle with a small window towards the server, which for a moment stops
	// forwarding what the server sends - the terminal envelope is then still in the server's own send queue, behind
	// earlier traffic, when the server closes a connection that has unread inbound data.
	var proxy *rig.Proxy
	if backlog && s.Transport != rig.InProc {
		proxy, err = rig.NewProxyOpts(sr.Addr(s.Transport).String(), 4096)
		if err != nil {
			r.Verdict = core.Inconclusive
			r.Note = err.Error()
			return
		}
		defer proxy.Close()
	}

	// ---- the client side -----------------------------------------------------------------------------
	var cc *lime.ClientChannel
	var client *lime.Client
	var clientTransports []lime.Transport
	var ctMu sync.Mutex
	var consumers sync.WaitGroup
	var clientHandlerHits int64
	if s.Initiator == "client-close" || s.HL {
		ccfg := lime.NewClientConfig()
		ccfg.Node = lime.Node{Identity: lime.Identity{Name: "c13", Domain: "verif.local"}, Instance: "i"}
		ccfg.ChannelBufferSize = s.Buf
		ccfg.NewTransport = func(ctx context.Context) (lime.Transport, error) {
			var t lime.Transport
			var err error
			if proxy != nil {
				t, err = rig.DialVia(ctx, s.Transport, proxy.Addr())
			} else {
				t, err = sr.Dial(ctx, s.Transport, 8, nil)
			}
			if err == nil {
				ctMu.Lock()
				clientTransports = append(clientTransports, t)
				ctMu.Unlock()
			}
			return t, err
		}
		ccfg.CompSelector = func(o []lime.SessionCompression) lime.SessionCompression { return lime.SessionCompressionNone }
		ccfg.EncryptSelector = rig.EncryptSelector(s.Transport)
		ccfg.Authenticator = lime.GuestAuthenticator
		cmux := &lime.EnvelopeMux{}
		cmux.MessageHandlerFunc(nil, func(ctx context.Context, m *lime.Message, sd lime.Sender) error {
			atomic.AddInt64(&clientHandlerHits, 1)
			return nil
		})
		cmux.ResponseCommandHandlerFunc(nil, func(ctx context.Context, m *lime.ResponseCommand, sd lime.Sender) error { return nil })
		client = lime.NewClient(ccfg, cmux)
		ectx, ec := context.WithTimeout(ctx, 15*time.Second)
		err := client.Establish(ectx)
		ec()
		if err != nil {
			r.Verdict = core.Inconclusive
			r.Note = "client establish: " + err.Error()
			_ = client.Close()
			return
		}
		cc = client.VerifChannel()
	} else {
		var t lime.Transport
		var err error
		if proxy != nil {
			t, err = rig.DialVia(ctx, s.Transport, proxy.Addr())
		} else {
			t, err = sr.Dial(ctx, s.Transport, 8, nil)
		}
		if err != nil {
			r.Verdict = core.Inconclusive
			r.Note = err.Error()
			return
		}
		clientTransports = append(clientTransports, t)
		cc = lime.NewClientChannel(t, s.Buf)
		ectx, ec := context.WithTimeout(ctx, 15*time.Second)
		ses, err := cc.EstablishSession(ectx, lime.NoneCompressionSelector, rig.EncryptSelector(s.Transport), lime.Identity{Name: "c13", Domain: "verif.local"}, lime.GuestAuthenticator, "i")
		ec()
		if err != nil || ses.State != lime.SessionStateEstablished {
			r.Verdict = core.Inconclusive
			r.Note = fmt.Sprintf("establish: %v", err)
			_ = cc.Close()
			return
		}
		// the observer keeps consuming its inbound streams (except the response stream in the 'unsolicited' traffic)
		drain := func(f func() bool) {
			consumers.Add(1)
			go func() {
				defer consumers.Done()
				for f() {
				}
			}()
		}
		drain(func() bool { _, ok := <-cc.MsgChan(); return ok })
		drain(func() bool { _, ok := <-cc.NotChan(); return ok })
		drain(func() bool { _, ok := <-cc.ReqCmdChan(); return ok })
		drain(func() bool { _, ok := <-cc.RespCmdChan(); return ok })
	}
	select {
	case <-estCh:
	case <-time.After(10 * time.Second):
		r.Verdict = core.Inconclusive
		r.Note = "no Established callback"
		return
	}
	estMu.Lock()
	srvCh := sc
	estMu.Unlock()
	if cc == nil || srvCh == nil {
		r.Verdict = core.Inconclusive
		r.Note = "no channel"
		return
	}
	r.Evals++
	r.Count("scenarios", 1)
	r.AddSet("initiators", s.Initiator)
	r.AddSet("transports_covered", s.Transport)
	r.Count("scn_"+s.Initiator, 1)
	r.Count("scn_"+s.Transport, 1)

	// ---- traffic ------------------------------------------------------------------------------------------
	stopTraffic := make(chan struct{})
	var traffic sync.WaitGroup
	var sentC2S, sentS2C int64
	send := func(ch c04senderIface, side string, counter *int64, unsolicited bool) {
		traffic.Add(1)
		go func() {
			defer traffic.Done()
			for i := 0; ; i++ {
				select {
				case <-stopTraffic:
					return
				default:
				}
				sctx, sc2 := context.WithTimeout(context.Background(), 2*time.Second)
				var err error
				if unsolicited {
					resp := &lime.ResponseCommand{Status: lime.CommandStatusSuccess}
					resp.ID = fmt.Sprintf("unsolicited-%s-%d", side, i)
					resp.Method = lime.CommandMethodGet
					err = ch.SendResponseCommand(sctx, resp)
				} else {
					m := &lime.Message{}
					m.ID = fmt.Sprintf("t-%s-%d", side, i)
					m.SetContent(lime.TextDocument("traffic"))
					err = ch.SendMessage(sctx, m)
				}
				sc2()
				if err != nil {
					return
				}
				atomic.AddInt64(counter, 1)
				if i%16 == 15 {
					runtime.Gosched()
				}
			}
		}()
	}
	var clientSender c04senderIface = cc
	var stalled *rig.ProxyConn
	switch s.Traffic {
	case "c2s":
		send(clientSender, "c", &sentC2S, false)
	case "s2c":
		send(srvCh, "s", &sentS2C, false)
	case "both":
		send(clientSender, "c", &sentC2S, false)
		send(srvCh, "s", &sentS2C, false)
	case "backlog":
		if !backlog {
			send(clientSender, "c", &sentC2S, false)
			break
		}
		// a burst the server cannot consume: it stays in the channel's buffer and on the connection
		for i := 0; i < 200; i++ {
			sctx, sc2 := context.WithTimeout(context.Background(), 50*time.Millisecond)
			m := &lime.Message{}
			m.ID = fmt.Sprintf("b-%d", i)
			m.SetContent(lime.TextDocument("backlog"))
			err := cc.SendMessage(sctx, m)
			sc2()
			if err != nil {
				break
			}
			atomic.AddInt64(&sentC2S, 1)
		}
		r.Count("backlog_scenarios", 1)
		if proxy != nil {
			if pc := proxy.Current(); pc != nil {
				pc.StallS2C(true)
				time.Sleep(10 * time.Millisecond)
				payload := strings.Repeat("x", 1000)
				for i := 0; i < 16; i++ {
					sctx, sc2 := context.WithTimeout(context.Background(), 50*time.Millisecond)
					m := &lime.Message{}
					m.ID = fmt.Sprintf("sb-%d", i)
					m.SetContent(lime.TextDocument(payload))
					err := srvCh.SendMessage(sctx, m)
					sc2()
					if err != nil {
						break
					}
					atomic.AddInt64(&sentS2C, 1)
				}
				stalled = pc
				r.Count("backlog_stalled_path", 1)
			}
		}
	case "unsolicited":
		// unsolicited responses flow towards the side that is about to terminate
		if s.Initiator == "client-finish" || s.Initiator == "client-close" {
			send(srvCh, "s", &sentS2C, true)
		} else {
			send(clientSender, "c", &sentC2S, true)
		}
	}
	if s.DelayUS > 0 {
		time.Sleep(time.Duration(s.DelayUS) * time.Microsecond)
	}

	// ---- the terminating call ----------------------------------------------------------------------------------
	termDone := make(chan error, 1)
	wantState := lime.SessionStateFinished
	if stalled != nil {
		// the path recovers shortly after the termination was requested
		go func() {
			time.Sleep(20 * time.Millisecond)
			stalled.StallS2C(false)
		}()
	}
	go func() {
		tctx, tc := context.WithTimeout(context.Background(), 20*time.Second)
		defer tc()
		switch s.Initiator {
		case "client-finish":
			_, err := cc.FinishSession(tctx)
			termDone <- err
		case "server-finish":
			termDone <- srvCh.FinishSession(tctx)
		case "server-fail":
			termDone <- srvCh.FailSession(tctx, &lime.Reason{Code: 42, Description: "c13"})
		case "client-close":
			termDone <- client.Close()
		case "server-close":
			err, ok := sr.Close(c13bound)
			serverClosed = true
			if !ok {
				termDone <- fmt.Errorf("ListenAndServe did not return within 15 s after Close")
			} else if err != lime.ErrServerClosed {
				termDone <- nil
			} else {
				termDone <- nil
			}
		}
	}()
	if s.Initiator == "server-fail" {
		wantState = lime.SessionStateFailed
	}
	var termErr error
	select {
	case termErr = <-termDone:
	case <-time.After(30 * time.Second):
		close(stopTraffic)
		openGate()
		buf := make([]byte, 1<<18)
		n := runtime.Stack(buf, true)
		fail("terminating-call-blocked", "the terminating call did not return within 30 s")
		r.Log = strings.Split(string(buf[:n]), "\n")
		if len(r.Log) > 250 {
			r.Log = r.Log[:250]
		}
		return
	}
	close(stopTraffic)
	openGate()
	_ = termErr

	waitFor := func(cond func() bool, bound time.Duration) bool {
		deadline := time.Now().Add(bound)
		for {
			if cond() {
				return true
			}
			if time.Now().After(deadline) {
				return false
			}
			time.Sleep(2 * time.Millisecond)
		}
	}
	closedCh := func(ch interface{}) bool {
		// drains and reports closedness without blocking
		for i := 0; i < 100000; i++ {
			switch c := ch.(type) {
			case <-chan *lime.Message:
				select {
				case _, ok := <-c:
					if !ok {
						return true
					}
				default:
					return false
				}
			case <-chan *lime.Notification:
				select {
				case _, ok := <-c:
					if !ok {
						return true
					}
				default:
					return false
				}
			case <-chan *lime.RequestCommand:
				select {
				case _, ok := <-c:
					if !ok {
						return true
					}
				default:
					return false
				}
			case <-chan *lime.ResponseCommand:
				select {
				case _, ok := <-c:
					if !ok {
						return true
					}
				default:
					return false
				}
			}
		}
		return false
	}
	rcvDone := func(d <-chan struct{}) bool {
		select {
		case <-d:
			return true
		default:
			return false
		}
	}

	clientInitiates := s.Initiator == "client-finish" || s.Initiator == "client-close"
	// (a) the observing side reaches the terminal state
	if clientInitiates {
		if !waitFor(func() bool { return srvCh.State() == lime.SessionStateFinished }, c13bound) {
			fail("observer-state", "the server channel is in state %s, expected finished (terminating call returned %v)", srvCh.State(), termErr)
		} else {
			r.Count("terminal_observed", 1)
		}
		if st := cc.State(); st != lime.SessionStateFinished && s.Initiator == "client-finish" && termErr == nil {
			fail("initiator-state", "FinishSession returned nil but the client channel is in state %s", st)
		}
	} else {
		// The high-level client may notice the end through its closed connection first and close the lost session's
		// channel on its own before that channel's receiver has applied the terminal envelope: the channel is then
		// discarded (closed, disconnected), which is what the statement asks of the high-level client.
		hlDiscarded := func() bool {
			if client == nil {
				return false
			}
			ctMu.Lock()
			first := clientTransports[0]
			ctMu.Unlock()
			return rcvDone(cc.RcvDone()) && !first.Connected()
		}
		if !waitFor(func() bool { return cc.State() == wantState || hlDiscarded() }, c13bound) {
			ctMu.Lock()
			nt := len(clientTransports)
			ctMu.Unlock()
			fail("observer-state", "the client (still consuming its streams) is in state %s, expected %s: the terminal session envelope was not observed (terminating call returned %v; client session %s, server session %s in state %s, client transports built %d)", cc.State(), wantState, termErr, cc.ID(), srvCh.ID(), srvCh.State(), nt)
		} else if cc.State() == wantState {
			r.Count("terminal_observed", 1)
		} else {
			r.Count("hl_discarded_before_terminal_applied", 1)
		}
	}
	// (d) the initiator's connection is closed by the terminating call
	switch s.Initiator {
	case "client-finish":
		if termErr == nil && clientTransports[0].Connected() {
			fail("initiator-still-connected", "FinishSession returned nil but the client's transport is still connected")
		}
		if termErr != nil && srvCh.State() == lime.SessionStateFinished && !errors.Is(termErr, context.DeadlineExceeded) && !errors.Is(termErr, context.Canceled) {
			// the server did answer the finishing request (its channel is finished): the client's call has to
			// complete the handshake, not fail on its own receiver having been faster
			fail("finish-failed-though-answered", "the server answered the finishing request (its channel is finished) but ClientChannel.FinishSession returned %v (client state %s, client transport connected: %v)", termErr, cc.State(), clientTransports[0].Connected())
		}
	case "server-finish", "server-fail":
		if termErr == nil && srvCh.VerifTransport().Connected() {
			fail("initiator-still-connected", "the terminating call returned nil but the server's transport is still connected")
		}
	case "client-close":
		ctMu.Lock()
		for i, t := range clientTransports {
			if !waitFor(func() bool { return !t.Connected() }, 2*time.Second) {
				fail("initiator-still-connected", "Client.Close returned (%v) but client transport #%d is still connected", termErr, i)
			}
		}
		ctMu.Unlock()
	}
	// (b) streams and RcvDone of both sides are closed, consumers return
	if !waitFor(func() bool { return rcvDone(cc.RcvDone()) }, c13bound) {
		fail("client-rcvdone-open", "the client channel's RcvDone is still open")
	}
	if !waitFor(func() bool { return rcvDone(srvCh.RcvDone()) }, c13bound) {
		fail("server-rcvdone-open", "the server channel's RcvDone is still open")
	}
	if client == nil {
		cdone := make(chan struct{})
		go func() { consumers.Wait(); close(cdone) }()
		select {
		case <-cdone:
		case <-time.After(c13bound):
			fail("client-consumers-blocked", "stream consumers on the client side have not returned: an inbound stream was not closed")
		}
	}
	if !waitFor(func() bool {
		return closedCh(srvCh.MsgChan()) && closedCh(srvCh.NotChan()) && closedCh(srvCh.ReqCmdChan()) && closedCh(srvCh.RespCmdChan())
	}, c13bound) {
		fail("server-streams-open", "an inbound stream of the server channel is still open")
	}
	if !waitFor(func() bool {
		return closedCh(cc.MsgChan()) && closedCh(cc.NotChan()) && closedCh(cc.ReqCmdChan()) && closedCh(cc.RespCmdChan())
	}, c13bound) {
		fail("client-streams-open", "an inbound stream of the client channel is still open")
	}
	// (c) the server's dispatch loop returned: the Finished callback fired
	if !waitFor(func() bool { return atomic.LoadInt64(&finishedCB) >= 1 }, c13bound) {
		fail("finished-callback", "the server's Finished callback has not fired (its dispatch loop did not return)")
	}
	// (e) the observing side closes its channel; then nothing may be left
	if client == nil {
		_ = cc.Close()
	} else if s.Initiator != "client-close" {
		// the high-level client closes the channel of the session it lost on its own (when its listener rebuilds)
		ctMu.Lock()
		first := clientTransports[0]
		ctMu.Unlock()
		if !waitFor(func() bool { return !first.Connected() }, c13bound) {
			fail("observer-did-not-close", "the high-level client has not closed the connection of the session the server ended")
		} else {
			r.Count("hl_observer_closed_on_its_own", 1)
		}
		cdone := make(chan error, 1)
		go func() { cdone <- client.Close() }()
		select {
		case <-cdone:
		case <-time.After(c13bound):
			fail("client-close-blocked", "Client.Close did not return within 15 s after the server had ended the session")
		}
		ctMu.Lock()
		for i, t := range clientTransports {
			if !waitFor(func() bool { return !t.Connected() }, 2*time.Second) {
				fail("observer-still-connected", "after Client.Close client transport #%d (of %d built) is still connected", i, len(clientTransports))
			}
		}
		ctMu.Unlock()
	}
	_ = srvCh.Close()
	tdone := make(chan struct{})
	go func() { traffic.Wait(); close(tdone) }()
	select {
	case <-tdone:
	case <-time.After(c13bound):
		fail("senders-blocked", "a sender is still blocked in a Send call long after the session ended")
	}
	if !serverClosed {
		// the server lives on: whatever belonged to the session has to be gone without the server being closed
		if leftServing := rig.WaitLimeGoroutines(servingG, 12*time.Second, "inProcessTransportListener).newClient"); len(leftServing) > servingG {
			fail("goroutines-left-while-serving", "%d lime-owned goroutines while the server was idle before the session, %d after the session ended and both sides closed their channels (server still serving): %v", servingG, len(leftServing), rig.Sites(leftServing))
			if len(r.Log) == 0 {
				for _, g := range leftServing {
					r.Log = append(r.Log, strings.Split(g.Raw, "\n")...)
				}
			}
		} else {
			r.Count("census_clean_while_serving", 1)
		}
		sr.Close(20 * time.Second)
		serverClosed = true
	}
	left := rig.WaitLimeGoroutines(baseG, 12*time.Second, "inProcessTransportListener).newClient")
	if len(left) > baseG {
		fail("goroutines-left", "%d lime-owned goroutines before the session, %d after everything was closed: %v", baseG, len(left), rig.Sites(left))
		if len(r.Log) == 0 {
			for _, g := range left {
				r.Log = append(r.Log, strings.Split(g.Raw, "\n")...)
			}
		}
	} else {
		r.Count("census_clean", 1)
	}
	runtime.GC()
	if fd := rig.SocketFDs(); baseFD >= 0 && fd > baseFD {
		// sockets are only released by finalizers if the library forgot them: give the GC one more chance, then report
		time.Sleep(50 * time.Millisecond)
		runtime.GC()
		time.Sleep(50 * time.Millisecond)
		if fd2 := rig.SocketFDs(); fd2 > baseFD {
			r.Count("socket_fds_above_baseline", fd2-baseFD)
		}
	}
	r.Count("hook_hits", int(atomic.LoadInt64(&hookHits)))
	r.Count("traffic_c2s", int(atomic.LoadInt64(&sentC2S)))
	r.Count("traffic_s2c", int(atomic.LoadInt64(&sentS2C)))
	if s.Traffic != "idle" || s.Buf <= 1 {
		r.Fingerprints = append(r.Fingerprints, fmt.Sprintf("%s|%s|%d|%s", s.Initiator, s.Transport, s.Buf, s.Traffic))
	}
	if r.Sample == nil {
		r.Sample = map[string]interface{}{"scenario": s, "terminating_call_error": fmt.Sprint(termErr), "goroutines_before": baseG, "goroutines_after": len(left), "envelopes_c2s": sentC2S, "envelopes_s2c": sentS2C}
	}
}
