package props

import (
	"context"
	"encoding/json"
	"errors"
	"fmt"
	"net"
	"runtime"
	"strings"
	"sync"
	"sync/atomic"
	"time"

	"github.com/gorilla/websocket"
	lime "github.com/takenet/lime-go"

	"verif/harness/internal/core"
	"verif/harness/internal/faultconn"
	"verif/harness/internal/rig"
)

// C15 — Blocking operations honour their context.
type c15 struct{}

func init() { core.Register(c15{}) }

func (c15) ID() string                  { return "C15" }
func (c15) Level() string               { return "exploration" }
func (c15) ChildParallel() int          { return 4 }
func (c15) Exhaustive(tier string) bool { return true }
func (c15) Rule() string {
	return "Matrix (enumerated completely in both tiers; thorough repeats every cell 3 times and adds more moments): operation {Transport.Send, Transport.Receive, Listener.Accept, SetEncryption(tls), SendMessage, SendNotification, SendRequestCommand, SendResponseCommand, ProcessCommand, ClientChannel.EstablishSession, ClientChannel.FinishSession, ServerChannel.EstablishSession, ServerChannel.FinishSession} x transport {in-memory TCP with 1-byte capacity, real TCP socket with a 16 MiB payload, in-process with zero buffer, WebSocket} x peer {silent, not reading with full buffers} x context {deadline, cancellation, cancellation of a context that also has a distant deadline (TCP)} x moment {already over before the call, ends 250 ms into the call}; one operation per session (in isolation). " +
		"Monitor: wall-clock latency between the end of the context and the return of the call. Bound: 2.5 s for deadlines on every transport and for cancellation on in-process/WebSocket; 5 s + 2.5 s for cancellation on TCP (the stated poll interval). A call still blocked 40 s after its context ended 'blocks indefinitely'. A success (nil) is a violation only where the operation cannot have completed. A miss is re-measured serially three times and must miss every time; samples taken while the load canary shows starvation are inconclusive. Non-trivial = cells in which the call was observed blocked when the context ended; distinct = cell."
}
func (c15) Assumptions() []string {
	return []string{"a call that returns successfully after its context ended is not a violation as long as it returns within the bound (ServerChannel.FinishSession waits for its own receiver)", "for a context that is over before the call any immediate error is accepted", "the error's identity is recorded, not judged (the statement demands an error within a bounded delay)"}
}
func (c15) Floors(tier string) map[string]int {
	return map[string]int{"cells": 100, "observed_blocked": 70, "returned_in_bound": 95}
}

type c15cell struct {
	Op        string `json:"op"`
	Transport string `json:"transport"`
	Peer      string `json:"peer"`   // silent | notreading
	Ctx       string `json:"ctx"`    // deadline | cancel
	Moment    string `json:"moment"` // before | during
}

func (c c15cell) key() string {
	return fmt.Sprintf("%s/%s/%s/%s/%s", c.Op, c.Transport, c.Peer, c.Ctx, c.Moment)
}

var c15transports = []string{"faulttcp", "tcp", rig.InProc, rig.WS}

func c15cells() []c15cell {
	var cells []c15cell
	add := func(op, tr, peer string, befores bool) {
		for _, ck := range []string{"deadline", "cancel"} {
			cells = append(cells, c15cell{op, tr, peer, ck, "during"})
		}
		if tr == "tcp" || tr == "faulttcp" || op == "Transport.Send" || op == "SendMessage" || op == "Transport.Receive" {
			// a context that has a distant deadline AND is cancelled early
			cells = append(cells, c15cell{op, tr, peer, "cancel-far-deadline", "during"})
		}
		if befores {
			cells = append(cells, c15cell{op, tr, peer, "deadline", "before"}, c15cell{op, tr, peer, "cancel", "before"})
		}
	}
	for _, tr := range c15transports {
		add("Transport.Send", tr, "notreading", tr == "faulttcp" || tr == rig.InProc)
		add("Transport.Receive", tr, "silent", true)
		for _, op := range []string{"SendMessage", "SendNotification", "SendRequestCommand", "SendResponseCommand"} {
			add(op, tr, "notreading", false)
		}
		add("ProcessCommand", tr, "silent", tr == rig.InProc)
		add("ClientChannel.EstablishSession", tr, "silent", false)
		add("ClientChannel.FinishSession", tr, "silent", false)
		add("ServerChannel.EstablishSession", tr, "silent", false)
		add("ServerChannel.FinishSession", tr, "silent", false)
		add("ServerChannel.FinishSession", tr, "notreading", false)
		// the peer has sent more unsolicited responses than the channel buffers and nobody consumes them: the
		// channel's receiver is parked on the full stream when the session is finished
		add("ServerChannel.FinishSession", tr, "respflood", false)
	}
	for _, tr := range []string{"tcp", rig.WS, rig.InProc} {
		add("Listener.Accept", tr, "silent", true)
	}
	for _, tr := range []string{"faulttcp", "tcp"} {
		add("SetEncryption", tr, "silent", false)
	}
	return cells
}

func (c15) Plan(tier string, seed uint64) []core.Case {
	var cases []core.Case
	reps := 1
	if tier == "thorough" {
		reps = 3
	}
	for rep := 0; rep < reps; rep++ {
		for i, cell := range c15cells() {
			cases = append(cases, core.Case{ID: fmt.Sprintf("C15/%s/%d", cell.key(), rep), Engine: "cell", Seed: core.Derive(seed, uint64(i), uint64(rep)).Uint64(), P: map[string]interface{}{"cell": cell}, TimeoutS: 400})
		}
	}
	return cases
}

const c15ctxAfter = 250 * time.Millisecond

func c15bound(cell c15cell) time.Duration {
	tcpLike := cell.Transport == "tcp" || cell.Transport == "faulttcp"
	if cell.Op == "ServerChannel.FinishSession" && tcpLike {
		// relaxation (1): after the (possibly blocked) send has noticed the end of the context at its poll, the call waits
		// for its own receiver, which notices its cancellation at the next 5 s poll: two polls in sequence
		return 10*time.Second + 2500*time.Millisecond
	}
	if (cell.Ctx == "cancel" || cell.Ctx == "cancel-far-deadline") && tcpLike {
		return 5*time.Second + 2500*time.Millisecond
	}
	return 2500 * time.Millisecond
}

type c15outcome struct {
	returned  bool
	err       error
	latency   time.Duration // return time minus context end (negative: returned before the context ended)
	blockedAt bool          // still blocked when the context ended
	setupErr  string
	canary    int64
}

// c15pausePeer is a typed peer whose pump can be stopped (a peer that is no longer reading).
type c15env struct {
	lib     lime.Transport
	cleanup []func()
	// peer handles
	rawConn   net.Conn         // real tcp / faultconn raw end
	faultPeer *faultconn.Conn  // faultconn end of the peer
	peerT     lime.Transport   // typed peer (inproc / ws)
	wsRaw     *websocket.Conn  // raw ws client peer (library is the server side)
	listener  lime.TransportListener
}

func (e *c15env) close() {
	for i := len(e.cleanup) - 1; i >= 0; i-- {
		e.cleanup[i]()
	}
}

// c15link builds a library transport whose peer is under harness control. libIsServer selects the role of the library end.
func c15link(flavour string, libIsServer bool) (*c15env, error) {
	e := &c15env{}
	switch flavour {
	case "faulttcp":
		// capacity of 1 byte towards the peer: a write blocks as soon as the peer stops reading
		ca, cb := faultconn.Pair(faultconn.Options{CapAtoB: 1, CapBtoA: 1 << 20})
		if libIsServer {
			// library end must be the one whose writes are capacity-limited: swap
			ca, cb = faultconn.Pair(faultconn.Options{CapAtoB: 1 << 20, CapBtoA: 1})
			e.lib = lime.VerifNewTCPTransport(cb, true, &lime.TCPConfig{TLSConfig: rig.ServerTLS()})
			e.faultPeer, e.rawConn = ca, ca
		} else {
			e.lib = lime.VerifNewTCPTransport(ca, false, &lime.TCPConfig{TLSConfig: rig.ClientTLS()})
			e.faultPeer, e.rawConn = cb, cb
		}
		e.cleanup = append(e.cleanup, func() { _ = ca.Close(); _ = cb.Close() })
	case "tcp":
		if libIsServer {
			l := lime.NewTCPTransportListener(&lime.TCPConfig{TLSConfig: rig.ServerTLS()})
			if err := l.Listen(context.Background(), &net.TCPAddr{IP: net.IPv4(127, 0, 0, 1)}); err != nil {
				return nil, err
			}
			conn, err := net.DialTimeout("tcp", lime.VerifListenerAddr(l).String(), 5*time.Second)
			if err != nil {
				_ = l.Close()
				return nil, err
			}
			ctx, cancel := context.WithTimeout(context.Background(), 5*time.Second)
			t, err := l.Accept(ctx)
			cancel()
			if err != nil {
				_ = l.Close()
				return nil, err
			}
			e.lib, e.rawConn = t, conn
			e.cleanup = append(e.cleanup, func() { _ = conn.Close(); _ = l.Close() })
		} else {
			ln, err := net.Listen("tcp", "127.0.0.1:0")
			if err != nil {
				return nil, err
			}
			acc := make(chan net.Conn, 1)
			go func() {
				c, err := ln.Accept()
				if err == nil {
					acc <- c
				}
			}()
			ctx, cancel := context.WithTimeout(context.Background(), 5*time.Second)
			t, err := lime.DialTcp(ctx, ln.Addr(), &lime.TCPConfig{TLSConfig: rig.ClientTLS()})
			cancel()
			if err != nil {
				_ = ln.Close()
				return nil, err
			}
			select {
			case c := <-acc:
				e.rawConn = c
			case <-time.After(5 * time.Second):
				_ = ln.Close()
				return nil, fmt.Errorf("no accept")
			}
			e.lib = t
			e.cleanup = append(e.cleanup, func() { _ = e.rawConn.Close(); _ = ln.Close() })
		}
	case rig.InProc:
		addr := rig.NewInProcAddr()
		l := lime.NewInProcessTransportListener(addr)
		if err := l.Listen(context.Background(), addr); err != nil {
			return nil, err
		}
		ct, err := lime.DialInProcess(addr, 0)
		if err != nil {
			return nil, err
		}
		ctx, cancel := context.WithTimeout(context.Background(), 5*time.Second)
		st, err := l.Accept(ctx)
		cancel()
		if err != nil {
			return nil, err
		}
		if libIsServer {
			e.lib, e.peerT = st, ct
		} else {
			e.lib, e.peerT = ct, st
		}
		e.cleanup = append(e.cleanup, func() { _ = ct.Close(); _ = l.Close() })
	case rig.WS:
		ws, err := rig.NewWSRaw(false)
		if err != nil {
			return nil, err
		}
		if libIsServer {
			conn, t, err := ws.DialRaw()
			if err != nil {
				ws.Close()
				return nil, err
			}
			e.lib, e.wsRaw = t, conn
			e.cleanup = append(e.cleanup, func() { _ = conn.Close(); ws.Close() })
		} else {
			type acc struct {
				t   lime.Transport
				err error
			}
			ch := make(chan acc, 1)
			go func() {
				ctx, cancel := context.WithTimeout(context.Background(), 10*time.Second)
				defer cancel()
				t, err := ws.L.Accept(ctx)
				ch <- acc{t, err}
			}()
			ctx, cancel := context.WithTimeout(context.Background(), 10*time.Second)
			ct, err := lime.DialWebsocket(ctx, ws.URL(), nil, nil)
			cancel()
			if err != nil {
				ws.Close()
				return nil, err
			}
			a := <-ch
			if a.err != nil {
				ws.Close()
				return nil, a.err
			}
			e.lib, e.peerT = ct, a.t
			e.cleanup = append(e.cleanup, func() { _ = ct.Close(); _ = a.t.Close(); ws.Close() })
		}
	default:
		return nil, fmt.Errorf("unknown transport %s", flavour)
	}
	return e, nil
}

// peerSend / peerRecv drive the peer end of the link during the set-up phase (handshakes).
func (e *c15env) peerSend(m map[string]interface{}) error {
	b, _ := json.Marshal(m)
	switch {
	case e.peerT != nil:
		v, err := c01typedDecodeAny(b)
		if err != nil {
			return err
		}
		ctx, cancel := context.WithTimeout(context.Background(), 5*time.Second)
		defer cancel()
		return sendAny(ctx, e.peerT, v)
	case e.wsRaw != nil:
		return e.wsRaw.WriteMessage(websocket.TextMessage, b)
	default:
		_ = e.rawConn.SetWriteDeadline(time.Now().Add(5 * time.Second))
		_, err := e.rawConn.Write(append(b, '\n'))
		return err
	}
}

func (e *c15env) peerRecv() (map[string]interface{}, error) {
	switch {
	case e.peerT != nil:
		ctx, cancel := context.WithTimeout(context.Background(), 5*time.Second)
		defer cancel()
		env, err := e.peerT.Receive(ctx)
		if err != nil {
			return nil, err
		}
		b, _ := json.Marshal(env)
		var m map[string]interface{}
		_ = json.Unmarshal(b, &m)
		return m, nil
	case e.wsRaw != nil:
		_ = e.wsRaw.SetReadDeadline(time.Now().Add(5 * time.Second))
		var m map[string]interface{}
		err := e.wsRaw.ReadJSON(&m)
		return m, err
	default:
		_ = e.rawConn.SetReadDeadline(time.Now().Add(5 * time.Second))
		var line []byte
		buf := make([]byte, 1)
		for {
			n, err := e.rawConn.Read(buf)
			if n == 1 {
				if buf[0] == '\n' {
					break
				}
				line = append(line, buf[0])
			}
			if err != nil {
				return nil, err
			}
		}
		var m map[string]interface{}
		err := json.Unmarshal(line, &m)
		return m, err
	}
}

// keepReading makes the peer consume (and discard) whatever arrives: a silent peer that still reads.
func (e *c15env) keepReading(stop chan struct{}) {
	go func() {
		for {
			select {
			case <-stop:
				return
			default:
			}
			switch {
			case e.peerT != nil:
				ctx, cancel := context.WithTimeout(context.Background(), 60*time.Second)
				go func() {
					select {
					case <-stop:
						cancel()
					case <-ctx.Done():
					}
				}()
				_, err := e.peerT.Receive(ctx)
				cancel()
				if err != nil {
					return
				}
			case e.wsRaw != nil:
				_ = e.wsRaw.SetReadDeadline(time.Now().Add(60 * time.Second))
				if _, _, err := e.wsRaw.ReadMessage(); err != nil {
					return
				}
			default:
				_ = e.rawConn.SetReadDeadline(time.Now().Add(200 * time.Millisecond))
				buf := make([]byte, 65536)
				_, err := e.rawConn.Read(buf)
				if err != nil {
					var ne net.Error
					if errors.As(err, &ne) && ne.Timeout() {
						continue
					}
					return
				}
			}
		}
	}()
}

func c15bigMessage(id string) *lime.Message {
	m := &lime.Message{}
	m.ID = id
	m.SetContent(lime.TextDocument(strings.Repeat("B", 16<<20)))
	return m
}

func c15payloadFor(transport string, id string) *lime.Message {
	if transport == "tcp" || transport == rig.WS {
		return c15bigMessage(id)
	}
	m := &lime.Message{}
	m.ID = id
	m.SetContent(lime.TextDocument("small"))
	return m
}

// establishes a client channel on the library end with the peer scripted by the harness.
func c15clientChannel(e *c15env) (*lime.ClientChannel, error) {
	cc := lime.NewClientChannel(e.lib, 1)
	done := make(chan error, 1)
	go func() {
		ctx, cancel := context.WithTimeout(context.Background(), 10*time.Second)
		defer cancel()
		_, err := cc.EstablishSession(ctx, lime.NoneCompressionSelector, lime.NoneEncryptionSelector, lime.Identity{Name: "c15", Domain: "verif.local"}, lime.GuestAuthenticator, "i")
		done <- err
	}()
	if _, err := e.peerRecv(); err != nil {
		return nil, fmt.Errorf("peer: no new session: %v", err)
	}
	if err := e.peerSend(map[string]interface{}{"id": "c15-session", "from": "srv@verif.local/s", "to": "c15@verif.local/i", "state": "established"}); err != nil {
		return nil, err
	}
	if err := <-done; err != nil {
		return nil, err
	}
	return cc, nil
}

func c15serverChannel(e *c15env) (*lime.ServerChannel, error) {
	sc := lime.NewServerChannel(e.lib, 1, lime.ParseNode(c06srvNode), "c15-srv-session")
	done := make(chan error, 1)
	go func() {
		ctx, cancel := context.WithTimeout(context.Background(), 10*time.Second)
		defer cancel()
		done <- sc.EstablishSession(ctx, []lime.SessionCompression{lime.SessionCompressionNone}, []lime.SessionEncryption{lime.SessionEncryptionNone}, []lime.AuthenticationScheme{lime.AuthenticationSchemeGuest},
			func(ctx context.Context, id lime.Identity, a lime.Authentication) (*lime.AuthenticationResult, error) {
				return lime.MemberAuthenticationResult(), nil
			},
			func(ctx context.Context, n lime.Node, ch *lime.ServerChannel) (lime.Node, error) {
				return lime.Node{Identity: lime.Identity{Name: "cli", Domain: "verif.local"}, Instance: "i"}, nil
			})
	}()
	if err := e.peerSend(map[string]interface{}{"state": "new"}); err != nil {
		return nil, err
	}
	m, err := e.peerRecv()
	if err != nil || m["state"] != "authenticating" {
		return nil, fmt.Errorf("peer: expected authenticating, got %v %v", m, err)
	}
	if err := e.peerSend(map[string]interface{}{"id": m["id"], "state": "authenticating", "from": "cli@verif.local/i", "scheme": "guest", "authentication": map[string]interface{}{}}); err != nil {
		return nil, err
	}
	if m, err = e.peerRecv(); err != nil || m["state"] != "established" {
		return nil, fmt.Errorf("peer: expected established, got %v %v", m, err)
	}
	if err := <-done; err != nil {
		return nil, err
	}
	return sc, nil
}

// c15measure runs one cell once.
func c15measure(cell c15cell) c15outcome {
	var out c15outcome
	core.CanaryReset()
	var env *c15env
	var err error
	var op func(ctx context.Context) error
	stopRead := make(chan struct{})
	defer close(stopRead)
	setup := func(libIsServer bool) bool {
		env, err = c15link(cell.Transport, libIsServer)
		if err != nil {
			out.setupErr = err.Error()
			return false
		}
		return true
	}
	switch cell.Op {
	case "Transport.Send":
		if !setup(false) {
			return out
		}
		msg := c15payloadFor(cell.Transport, "send")
		op = func(ctx context.Context) error { return env.lib.Send(ctx, msg) }
	case "Transport.Receive":
		if !setup(false) {
			return out
		}
		op = func(ctx context.Context) error {
			_, err := env.lib.Receive(ctx)
			return err
		}
	case "Listener.Accept":
		var l lime.TransportListener
		var addr net.Addr = &net.TCPAddr{IP: net.IPv4(127, 0, 0, 1)}
		switch cell.Transport {
		case "tcp":
			l = lime.NewTCPTransportListener(nil)
		case rig.WS:
			l = lime.NewWebsocketTransportListener(nil)
		default:
			a := rig.NewInProcAddr()
			l = lime.NewInProcessTransportListener(a)
			addr = a
		}
		if err := l.Listen(context.Background(), addr); err != nil {
			out.setupErr = err.Error()
			return out
		}
		env = &c15env{cleanup: []func(){func() { _ = l.Close() }}}
		op = func(ctx context.Context) error {
			_, err := l.Accept(ctx)
			return err
		}
	case "SetEncryption":
		if !setup(false) {
			return out
		}
		op = func(ctx context.Context) error { return env.lib.SetEncryption(ctx, lime.SessionEncryptionTLS) }
	case "SendMessage", "SendNotification", "SendRequestCommand", "SendResponseCommand", "ProcessCommand", "ClientChannel.FinishSession":
		if !setup(false) {
			return out
		}
		cc, err := c15clientChannel(env)
		if err != nil {
			out.setupErr = err.Error()
			env.close()
			return out
		}
		env.cleanup = append(env.cleanup, func() { go func() { _ = cc.Close() }() })
		if cell.Peer == "silent" {
			env.keepReading(stopRead)
		}
		big := cell.Transport == "tcp" || cell.Transport == rig.WS
		pad := "p"
		if big {
			pad = strings.Repeat("P", 16<<20)
		}
		switch cell.Op {
		case "SendMessage":
			m := &lime.Message{}
			m.ID = "m"
			m.SetContent(lime.TextDocument(pad))
			op = func(ctx context.Context) error { return cc.SendMessage(ctx, m) }
		case "SendNotification":
			n := &lime.Notification{Event: lime.NotificationEventFailed, Reason: &lime.Reason{Code: 1, Description: pad}}
			n.ID = "n"
			op = func(ctx context.Context) error { return cc.SendNotification(ctx, n) }
		case "SendRequestCommand":
			q := &lime.RequestCommand{}
			q.ID = "q"
			q.Method = lime.CommandMethodSet
			q.SetURIString("/x")
			q.SetResource(lime.TextDocument(pad))
			op = func(ctx context.Context) error { return cc.SendRequestCommand(ctx, q) }
		case "SendResponseCommand":
			q := &lime.ResponseCommand{Status: lime.CommandStatusSuccess}
			q.ID = "q"
			q.Method = lime.CommandMethodGet
			q.SetResource(lime.TextDocument(pad))
			op = func(ctx context.Context) error { return cc.SendResponseCommand(ctx, q) }
		case "ProcessCommand":
			q := &lime.RequestCommand{}
			q.ID = "pc"
			q.Method = lime.CommandMethodGet
			q.SetURIString("/ping")
			op = func(ctx context.Context) error {
				_, err := cc.ProcessCommand(ctx, q)
				return err
			}
		case "ClientChannel.FinishSession":
			op = func(ctx context.Context) error {
				_, err := cc.FinishSession(ctx)
				return err
			}
		}
	case "ClientChannel.EstablishSession":
		if !setup(false) {
			return out
		}
		cc := lime.NewClientChannel(env.lib, 1)
		env.cleanup = append(env.cleanup, func() { go func() { _ = cc.Close() }() })
		env.keepReading(stopRead)
		op = func(ctx context.Context) error {
			_, err := cc.EstablishSession(ctx, lime.NoneCompressionSelector, lime.NoneEncryptionSelector, lime.Identity{Name: "c15", Domain: "verif.local"}, lime.GuestAuthenticator, "i")
			return err
		}
	case "ServerChannel.EstablishSession":
		if !setup(true) {
			return out
		}
		sc := lime.NewServerChannel(env.lib, 1, lime.ParseNode(c06srvNode), "c15-srv-session")
		env.cleanup = append(env.cleanup, func() { go func() { _ = sc.Close() }() })
		op = func(ctx context.Context) error {
			return sc.EstablishSession(ctx, []lime.SessionCompression{lime.SessionCompressionNone}, []lime.SessionEncryption{lime.SessionEncryptionNone}, []lime.AuthenticationScheme{lime.AuthenticationSchemeGuest},
				func(ctx context.Context, id lime.Identity, a lime.Authentication) (*lime.AuthenticationResult, error) {
					return lime.MemberAuthenticationResult(), nil
				},
				func(ctx context.Context, n lime.Node, ch *lime.ServerChannel) (lime.Node, error) { return n, nil })
		}
	case "ServerChannel.FinishSession":
		if !setup(true) {
			return out
		}
		sc, err := c15serverChannel(env)
		if err != nil {
			out.setupErr = err.Error()
			env.close()
			return out
		}
		env.cleanup = append(env.cleanup, func() { go func() { _ = sc.Close() }() })
		if cell.Peer == "respflood" {
			env.keepReading(stopRead)
			go func() {
				// (over the in-process transport the peer's own sends block once the pipe is full)
				for i := 0; i < 24; i++ {
					if env.peerSend(map[string]interface{}{"id": fmt.Sprintf("unsolicited-%d", i), "method": "get", "status": "success"}) != nil {
						return
					}
				}
			}()
			time.Sleep(100 * time.Millisecond)
		} else if cell.Peer == "silent" {
			env.keepReading(stopRead)
		} else if cell.Transport == "tcp" || cell.Transport == rig.WS {
			// fill the socket buffers first: the peer is not reading
			fctx, fc := context.WithTimeout(context.Background(), 1500*time.Millisecond)
			m := &lime.Message{}
			m.ID = "fill"
			m.SetContent(lime.TextDocument(strings.Repeat("F", 16<<20)))
			_ = sc.SendMessage(fctx, m)
			fc()
		}
		op = func(ctx context.Context) error { return sc.FinishSession(ctx) }
	default:
		out.setupErr = "unknown op"
		return out
	}
	defer env.close()

	var ctx context.Context
	var cancel context.CancelFunc
	var ctxEnd time.Time
	var endMu sync.Mutex
	switch {
	case cell.Moment == "before" && cell.Ctx == "deadline":
		ctx, cancel = context.WithDeadline(context.Background(), time.Now().Add(-time.Second))
		ctxEnd = time.Now()
	case cell.Moment == "before":
		ctx, cancel = context.WithCancel(context.Background())
		cancel()
		ctxEnd = time.Now()
	case cell.Ctx == "deadline":
		ctxEnd = time.Now().Add(c15ctxAfter)
		ctx, cancel = context.WithDeadline(context.Background(), ctxEnd)
	default:
		if cell.Ctx == "cancel-far-deadline" {
			ctx, cancel = context.WithTimeout(context.Background(), 25*time.Second)
		} else {
			ctx, cancel = context.WithCancel(context.Background())
		}
		t := time.AfterFunc(c15ctxAfter, func() {
			endMu.Lock()
			ctxEnd = time.Now()
			endMu.Unlock()
			cancel()
		})
		defer t.Stop()
	}
	defer cancel()
	var returnedFlag int32
	done := make(chan error, 1)
	var retAt time.Time
	go func() {
		err := op(ctx)
		retAt = time.Now()
		atomic.StoreInt32(&returnedFlag, 1)
		done <- err
	}()
	if cell.Moment == "during" {
		// was the call blocked when its context ended?
		<-ctx.Done()
		out.blockedAt = atomic.LoadInt32(&returnedFlag) == 0
	} else {
		ctxEnd = time.Now()
	}
	select {
	case err := <-done:
		out.returned = true
		out.err = err
		endMu.Lock()
		out.latency = retAt.Sub(ctxEnd)
		endMu.Unlock()
	case <-time.After(40*time.Second + c15ctxAfter):
		out.returned = false
	}
	out.canary = core.CanaryWorstMS()
	return out
}

func (p c15) Run(c core.Case) core.Result {
	var r core.Result
	r.Verdict = core.Held
	var cell c15cell
	remarshal(c.P["cell"], &cell)
	bound := c15bound(cell)
	r.Evals = 1
	key := "C15/%s/" + cell.Op + "/" + cell.Transport + "/" + cell.Peer + "/" + cell.Ctx + "/" + cell.Moment
	judge := func(o c15outcome) (string, string) {
		// returns (class, detail); class "" = fine
		if o.setupErr != "" {
			return "setup", o.setupErr
		}
		if !o.returned {
			return "blocks", fmt.Sprintf("the call was still blocked 40 s after its context ended")
		}
		if o.latency > bound {
			return "late", fmt.Sprintf("the call returned %v after its context ended (bound %v; error: %v)", o.latency.Round(time.Millisecond), bound, o.err)
		}
		cannotComplete := cell.Op == "Transport.Receive" || cell.Op == "Listener.Accept" || cell.Op == "ProcessCommand" || cell.Op == "ClientChannel.EstablishSession" || cell.Op == "ClientChannel.FinishSession" || cell.Op == "ServerChannel.EstablishSession" || cell.Op == "SetEncryption" ||
			(cell.Peer == "notreading" && cell.Op != "ServerChannel.FinishSession")
		if o.err == nil && cannotComplete {
			return "nil", "the call returned nil although it cannot have completed (the peer is " + cell.Peer + ")"
		}
		return "", ""
	}
	o := c15measure(cell)
	class, detail := judge(o)
	if class == "setup" {
		r.Verdict = core.Inconclusive
		r.Note = "setup: " + detail
		return r
	}
	if class == "late" || class == "blocks" {
		// re-measure serially three times: it must miss every time
		misses := 1
		need := 4
		if class == "blocks" {
			need = 2 // each sample of an indefinitely blocked call costs 40 s: one confirmation is enough
		}
		for i := 0; i < need-1; i++ {
			o2 := c15measure(cell)
			c2, d2 := judge(o2)
			if o2.canary > 250 {
				r.Verdict = core.Inconclusive
				r.Note = "re-measurement under starvation"
				return r
			}
			if c2 == class {
				misses++
				detail = d2
			} else {
				break
			}
		}
		if misses < need || o.canary > 250 {
			if o.canary > 250 {
				r.Verdict = core.Inconclusive
				r.Note = "first measurement under starvation"
				return r
			}
			r.Count("transient_misses", 1)
			class = ""
		}
	}
	r.Count("cells", 1)
	if o.blockedAt {
		r.Count("observed_blocked", 1)
		r.NonTrivial = true
		r.Fingerprint = cell.key()
	}
	if class != "" {
		r.Violate(fmt.Sprintf(key, class), fmt.Sprintf("%s over %s, peer %s, %s %s the call: %s", cell.Op, cell.Transport, cell.Peer, cell.Ctx, cell.Moment, detail))
		if class == "blocks" {
			buf := make([]byte, 1<<17)
			n := runtime.Stack(buf, true)
			r.Log = strings.Split(string(buf[:n]), "\n")
			if len(r.Log) > 150 {
				r.Log = r.Log[:150]
			}
		}
	} else {
		r.Count("returned_in_bound", 1)
		if o.err != nil && cell.Moment == "during" && !errors.Is(o.err, context.Canceled) && !errors.Is(o.err, context.DeadlineExceeded) {
			r.Count("errors_not_wrapping_context", 1)
			r.AddSet("non_context_errors", cell.Op+"/"+cell.Transport+": "+firstN(o.err.Error(), 80))
		}
	}
	r.Sample = map[string]interface{}{"cell": cell, "latency_ms": o.latency.Milliseconds(), "bound_ms": bound.Milliseconds(), "blocked_when_context_ended": o.blockedAt, "error": fmt.Sprint(o.err)}
	return r
}

func firstN(s string, n int) string {
	if len(s) > n {
		return s[:n]
	}
	return s
}
