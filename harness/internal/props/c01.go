package props

import (
	"context"
	"encoding/json"
	"fmt"
	"reflect"
	"sort"
	"strings"
	"time"

	"github.com/gorilla/websocket"
	lime "github.com/takenet/lime-go"

	"sync"
	"sync/atomic"
	"verif/harness/internal/core"
	"verif/harness/internal/faultconn"
	"verif/harness/internal/gen"
	"verif/harness/internal/rig"
)

// C01 — Envelope JSON round-trip preserves kind and content.
type c01 struct{}

func init() { core.Register(c01{}) }

func (c01) ID() string                  { return "C01" }
func (c01) Level() string               { return "exploration" }
func (c01) ChildParallel() int          { return 1 }
func (c01) Exhaustive(tier string) bool { return false }
func (c01) Rule() string {
	return "Envelopes: seeded recursive generator of well-formed values (5 kinds; optional-field masks enumerated cyclically so every combination of optional fields of every kind occurs; documents: text, generic JSON, container, collection, ping, 5 chat documents, one harness-registered custom type, nested to depth 4; all enum members; strings from pools of ASCII, multi-byte UTF-8, JSON escapes/control characters, separators except where the address grammar reserves them). " +
		"Well-formedness exclusions (see DESIGN.md §4.8): media types never zero, chat photo URIs without userinfo, containers always hold a value, request has a URI, response has a status, command Type iff Resource, authentication set together with its scheme. " +
		"Each value: json.Marshal must succeed; typed decoder result must be Eq (normalised equality) and of the same kind; the encodings of a whole batch are streamed through ONE real tcpTransport.Receive (constructor hook) so that state carried between receives is exposed, and (thorough, and a sample in quick) through a real WebSocket listener's transport; the generic-map decoding must have exactly the protocol keys the populated fields predict. " +
		"Text forms: exhaustive over alphabet {a,b,.,-} (+'@' in instance) for Node/Identity/MediaType up to total length 5 (quick) / 6 (thorough): Parse(String(x))==x; every string over {a,b,@,/,+,:,?,%} up to length 5 / 6: Parse errors or String∘Parse is idempotent; URIs from a small grammar. " +
		"Non-trivial = >=2 optional fields set or a structured/nested document; distinct = (kind, optional-field mask, document-kind path)."
}
func (c01) Assumptions() []string {
	return []string{"encoding/json, net/url trusted", "equality normalisation: nil==empty map/slice, pointers dereferenced, time.Equal, URIs by canonical string (DESIGN.md §4.8)"}
}
func (c01) Floors(tier string) map[string]int {
	return map[string]int{"envelopes": 2000, "typed_roundtrips": 2000, "transport_roundtrips": 2000, "ws_roundtrips": 50, "textform_values": 5000, "textform_strings": 10000, "keyset_checks": 2000}
}

func (c01) Plan(tier string, seed uint64) []core.Case {
	var cases []core.Case
	per := 1100
	batch := 110
	wsEvery := 5
	tl := 5
	if tier == "thorough" {
		per = 60000
		batch = 1000
		wsEvery = 1
		tl = 6
	}
	for k := 0; k < gen.NKinds; k++ {
		for lo := 0; lo < per; lo += batch {
			cases = append(cases, core.Case{ID: fmt.Sprintf("C01/%s/%05d", gen.KindNames[k], lo), Engine: "envelopes", Seed: core.Derive(seed, uint64(k), uint64(lo)).Uint64(),
				P: map[string]interface{}{"kind": k, "lo": lo, "n": batch, "ws": (lo/batch)%wsEvery == 0}, TimeoutS: 300})
		}
	}
	// mixed-kind streams through one transport (state carried across kinds)
	nmix := 10
	if tier == "thorough" {
		nmix = 300
	}
	for i := 0; i < nmix; i++ {
		cases = append(cases, core.Case{ID: fmt.Sprintf("C01/mixed/%03d", i), Engine: "envelopes", Seed: core.Derive(seed, 99, uint64(i)).Uint64(), P: map[string]interface{}{"kind": -1, "lo": i * 200, "n": 200, "ws": i%3 == 0}, TimeoutS: 300})
	}
	// many goroutines encoding and decoding their own envelopes at the same time (a server with several sessions):
	// the codec must not share state between them
	nconc := 2
	if tier == "thorough" {
		nconc = 16
	}
	for i := 0; i < nconc; i++ {
		cases = append(cases, core.Case{ID: fmt.Sprintf("C01/concurrent/%02d", i), Engine: "concurrent", Seed: core.Derive(seed, 77, uint64(i)).Uint64(), P: map[string]interface{}{"goroutines": 16, "n": 400}, TimeoutS: 300})
	}
	for _, form := range []string{"identity", "node", "mediatype", "uri"} {
		cases = append(cases, core.Case{ID: "C01/text/" + form, Engine: "textvalues", P: map[string]interface{}{"form": form, "len": tl}, TimeoutS: 600})
	}
	// arbitrary strings: split by first character to spread over children
	for _, form := range []string{"identity", "node", "mediatype", "uri"} {
		for first := 0; first < 8; first++ {
			cases = append(cases, core.Case{ID: fmt.Sprintf("C01/strings/%s/%d", form, first), Engine: "textstrings", P: map[string]interface{}{"form": form, "len": tl, "first": first}, TimeoutS: 600})
		}
	}
	return cases
}

// expectedKeys predicts the JSON keys of an envelope from its populated fields (protocol names).
func c01expectedKeys(v interface{}) []string {
	var keys []string
	env := func(e lime.Envelope) {
		if e.ID != "" {
			keys = append(keys, "id")
		}
		if e.From != (lime.Node{}) {
			keys = append(keys, "from")
		}
		if e.PP != (lime.Node{}) {
			keys = append(keys, "pp")
		}
		if e.To != (lime.Node{}) {
			keys = append(keys, "to")
		}
		if len(e.Metadata) > 0 {
			keys = append(keys, "metadata")
		}
	}
	cmd := func(c lime.Command) {
		env(c.Envelope)
		keys = append(keys, "method")
		if c.Resource != nil {
			keys = append(keys, "resource", "type")
		}
	}
	switch x := v.(type) {
	case *lime.Message:
		env(x.Envelope)
		keys = append(keys, "type", "content")
	case *lime.Notification:
		env(x.Envelope)
		keys = append(keys, "event")
		if x.Reason != nil {
			keys = append(keys, "reason")
		}
	case *lime.RequestCommand:
		cmd(x.Command)
		keys = append(keys, "uri")
	case *lime.ResponseCommand:
		cmd(x.Command)
		keys = append(keys, "status")
		if x.Reason != nil {
			keys = append(keys, "reason")
		}
	case *lime.Session:
		env(x.Envelope)
		keys = append(keys, "state")
		if len(x.EncryptionOptions) > 0 {
			keys = append(keys, "encryptionOptions")
		}
		if x.Encryption != "" {
			keys = append(keys, "encryption")
		}
		if len(x.CompressionOptions) > 0 {
			keys = append(keys, "compressionOptions")
		}
		if x.Compression != "" {
			keys = append(keys, "compression")
		}
		if len(x.SchemeOptions) > 0 {
			keys = append(keys, "schemeOptions")
		}
		if x.Scheme != "" {
			keys = append(keys, "scheme")
		}
		if x.Authentication != nil {
			keys = append(keys, "authentication")
		}
		if x.Reason != nil {
			keys = append(keys, "reason")
		}
	}
	sort.Strings(keys)
	return keys
}

func c01envelopeOf(v interface{}) lime.Envelope {
	switch x := v.(type) {
	case *lime.Message:
		return x.Envelope
	case *lime.Notification:
		return x.Envelope
	case *lime.RequestCommand:
		return x.Envelope
	case *lime.ResponseCommand:
		return x.Envelope
	case *lime.Session:
		return x.Envelope
	}
	return lime.Envelope{}
}

func c01typedDecode(kind string, b []byte) (interface{}, error) {
	switch kind {
	case "message":
		var m lime.Message
		err := json.Unmarshal(b, &m)
		return &m, err
	case "notification":
		var m lime.Notification
		err := json.Unmarshal(b, &m)
		return &m, err
	case "request":
		var m lime.RequestCommand
		err := json.Unmarshal(b, &m)
		return &m, err
	case "response":
		var m lime.ResponseCommand
		err := json.Unmarshal(b, &m)
		return &m, err
	default:
		var m lime.Session
		err := json.Unmarshal(b, &m)
		return &m, err
	}
}

func (p c01) Run(c core.Case) core.Result {
	gen.Register()
	var r core.Result
	r.Verdict = core.Held
	switch c.Engine {
	case "envelopes":
		p.envelopes(&r, c)
	case "concurrent":
		p.concurrent(&r, c)
	case "textvalues":
		p.textValues(&r, c)
	case "textstrings":
		p.textStrings(&r, c)
	}
	return r
}

// concurrent: each goroutine round-trips its own envelopes through the typed codec while the others do the same.
func (p c01) concurrent(r *core.Result, c core.Case) {
	ng, n := c.Int("goroutines", 16), c.Int("n", 400)
	type bad struct{ key, detail string }
	var mu sync.Mutex
	var bads []bad
	var total int64
	var wg sync.WaitGroup
	start := make(chan struct{})
	for gi := 0; gi < ng; gi++ {
		wg.Add(1)
		go func(gi int) {
			defer wg.Done()
			g := gen.New(core.Derive(c.Seed, uint64(gi)).Uint64())
			<-start
			for i := 0; i < n; i++ {
				kind := g.R.Intn(gen.NKinds)
				mask := g.R.Intn(1 << gen.MaskBits(kind))
				v, path := g.Envelope(kind, mask)
				tag := fmt.Sprintf("goroutine %d of %d, %s mask=%#x doc=%s", gi, ng, gen.KindNames[kind], mask, path)
				b, err := json.Marshal(v)
				var k, d string
				if err != nil {
					k, d = "C01/concurrent/marshal-error/"+gen.KindNames[kind], fmt.Sprintf("%s: json.Marshal failed while other goroutines encode: %v", tag, err)
				} else if dec, err := c01typedDecode(gen.KindNames[kind], b); err != nil {
					k, d = "C01/concurrent/typed-decode-error/"+gen.KindNames[kind], fmt.Sprintf("%s: the encoding produced while other goroutines encode is rejected: %v; encoding %s", tag, err, clip(b))
				} else if ok, where := gen.Eq(v, dec); !ok {
					k, d = "C01/concurrent/not-equal/"+gen.KindNames[kind], fmt.Sprintf("%s: round trip under concurrency differs at %s; encoding %s", tag, where, clip(b))
				}
				atomic.AddInt64(&total, 1)
				if k != "" {
					mu.Lock()
					if len(bads) < 20 {
						bads = append(bads, bad{k, d})
					}
					mu.Unlock()
				}
			}
		}(gi)
	}
	close(start)
	wg.Wait()
	r.Evals += int(total)
	r.Count("concurrent_roundtrips", int(total))
	r.Count("envelopes", int(total))
	for _, b := range bads {
		r.Violate(b.key, b.detail)
	}
	r.Fingerprints = append(r.Fingerprints, fmt.Sprintf("concurrent|%d|%d|%d", ng, n, c.Seed%100000))
}

func (p c01) envelopes(r *core.Result, c core.Case) {
	g := gen.New(c.Seed)
	kindParam := c.Int("kind", 0)
	n := c.Int("n", 100)
	lo := c.Int("lo", 0)
	fps := map[string]bool{}
	type item struct {
		v    interface{}
		b    []byte
		kind string
		tag  string
	}
	var items []item
	for i := 0; i < n; i++ {
		kind := kindParam
		if kind < 0 {
			kind = g.R.Intn(gen.NKinds)
		}
		bits := gen.MaskBits(kind)
		mask := (lo + i) % (1 << bits)
		if kindParam < 0 {
			mask = g.R.Intn(1 << bits)
		}
		v, path := g.Envelope(kind, mask)
		r.Evals++
		r.Count("envelopes", 1)
		r.AddSet("doc_paths", path)
		b, err := json.Marshal(v)
		tag := fmt.Sprintf("%s mask=%#x doc=%s", gen.KindNames[kind], mask, path)
		if err != nil {
			r.Violate("C01/marshal-error/"+gen.KindNames[kind], fmt.Sprintf("%s: json.Marshal failed: %v (value %+v)", tag, err, v))
			continue
		}
		nontrivial := popcount(mask) >= 2 || strings.Contains(path, ">") || strings.HasPrefix(path, "chat.") || path == "json" || path == "custom"
		if nontrivial {
			fps[fmt.Sprintf("%s|%x|%s", gen.KindNames[kind], mask, path)] = true
		}
		items = append(items, item{v, b, gen.KindNames[kind], tag})

		// (2) typed decoder
		d, err := c01typedDecode(gen.KindNames[kind], b)
		r.Count("typed_roundtrips", 1)
		if err != nil {
			r.Violate("C01/typed-decode-error/"+gen.KindNames[kind], fmt.Sprintf("%s: typed decoder rejected the library's own encoding %s: %v", tag, b, err))
		} else if ok, where := gen.Eq(v, d); !ok {
			r.Violate("C01/typed-not-equal/"+gen.KindNames[kind]+"/"+fieldOf(where), fmt.Sprintf("%s: typed decode differs at %s; encoding %s", tag, where, b))
		}
		// (5) key set and simple values
		var generic map[string]json.RawMessage
		r.Count("keyset_checks", 1)
		if err := json.Unmarshal(b, &generic); err != nil {
			r.Violate("C01/not-json-object/"+gen.KindNames[kind], fmt.Sprintf("%s: encoding is not a JSON object: %s", tag, b))
		} else {
			var got []string
			for k := range generic {
				got = append(got, k)
			}
			sort.Strings(got)
			want := c01expectedKeys(v)
			if !reflect.DeepEqual(got, want) {
				r.Violate("C01/keyset/"+gen.KindNames[kind], fmt.Sprintf("%s: encoded keys %v, expected %v; encoding %s", tag, got, want, b))
			}
			e := c01envelopeOf(v)
			chk := func(key, want string) {
				if raw, ok := generic[key]; ok {
					var s string
					if json.Unmarshal(raw, &s) != nil || s != want {
						r.Violate("C01/wire-value/"+key, fmt.Sprintf("%s: key %q is %s on the wire, expected %q", tag, key, raw, want))
					}
				}
			}
			chk("id", e.ID)
			chk("from", e.From.String())
			chk("to", e.To.String())
			chk("pp", e.PP.String())
		}
		if r.Sample == nil && nontrivial && len(b) < 600 {
			r.Sample = map[string]interface{}{"kind": gen.KindNames[kind], "optional_field_mask": mask, "document_path": path, "encoding": string(b)}
		}
	}
	// (3) the whole batch through one real TCP transport
	tp := rig.NewTransportPair(faultconn.Options{}, nil, &lime.TCPConfig{ReadLimit: 64 << 20})
	tp.CA.SetTap(false)
	go func() {
		for _, it := range items {
			_, _ = tp.CA.Write(append(append([]byte{}, it.b...), '\n'))
		}
	}()
	for i, it := range items {
		ctx, cancel := context.WithTimeout(context.Background(), 30*time.Second)
		env, err := tp.B.Receive(ctx)
		cancel()
		r.Count("transport_roundtrips", 1)
		if err != nil {
			r.Violate("C01/transport-decode-error/"+it.kind, fmt.Sprintf("%s: tcp transport Receive failed on envelope #%d of the stream: %v; encoding %s", it.tag, i, err, it.b))
			break
		}
		if gen.KindOf(env) != it.kind {
			r.Violate("C01/transport-kind/"+it.kind, fmt.Sprintf("%s: received as %s; encoding %s", it.tag, gen.KindOf(env), it.b))
			continue
		}
		if ok, where := gen.Eq(it.v, env); !ok {
			prev := ""
			if i > 0 {
				prev = string(items[i-1].b)
			}
			r.Violate("C01/transport-not-equal/"+it.kind+"/"+fieldOf(where), fmt.Sprintf("%s: envelope #%d received through the tcp transport differs at %s; encoding %s; previous envelope on the same transport %s", it.tag, i, where, it.b, prev))
		}
	}
	tp.Close()
	// (4) through a real WebSocket transport
	if c.Bool("ws") {
		ws, err := rig.NewWSRaw(false)
		if err != nil {
			r.Logf("ws listen failed: %v", err)
		} else {
			conn, t, err := ws.DialRaw()
			if err != nil {
				r.Logf("ws dial failed: %v", err)
			} else {
				lim := len(items)
				go func() {
					for _, it := range items[:lim] {
						_ = conn.WriteMessage(websocket.TextMessage, it.b)
					}
				}()
				for i, it := range items[:lim] {
					ctx, cancel := context.WithTimeout(context.Background(), 30*time.Second)
					env, err := t.Receive(ctx)
					cancel()
					r.Count("ws_roundtrips", 1)
					if err != nil {
						r.Violate("C01/ws-decode-error/"+it.kind, fmt.Sprintf("%s: websocket transport Receive failed on #%d: %v; encoding %s", it.tag, i, err, it.b))
						break
					}
					if gen.KindOf(env) != it.kind {
						r.Violate("C01/ws-kind/"+it.kind, fmt.Sprintf("%s: received as %s", it.tag, gen.KindOf(env)))
						continue
					}
					if ok, where := gen.Eq(it.v, env); !ok {
						r.Violate("C01/ws-not-equal/"+it.kind+"/"+fieldOf(where), fmt.Sprintf("%s: envelope #%d received through the websocket transport differs at %s; encoding %s", it.tag, i, where, it.b))
					}
				}
				_ = conn.Close()
				_ = t.Close()
			}
			ws.Close()
		}
	}
	for k := range fps {
		r.Fingerprints = append(r.Fingerprints, k)
	}
}

func fieldOf(where string) string {
	// "$.Envelope.PP.Identity.Name: ..." -> "Envelope.PP"
	w := strings.TrimPrefix(where, "$")
	if i := strings.Index(w, ":"); i >= 0 {
		w = w[:i]
	}
	w = strings.TrimPrefix(w, ".")
	parts := strings.Split(w, ".")
	if len(parts) > 2 {
		parts = parts[:2]
	}
	s := strings.Join(parts, ".")
	if i := strings.IndexAny(s, "[ "); i >= 0 {
		s = s[:i]
	}
	if s == "" {
		s = "root"
	}
	return s
}

func popcount(x int) int {
	n := 0
	for x != 0 {
		n += x & 1
		x >>= 1
	}
	return n
}

// allStrings enumerates every string over alphabet with length <= max (including empty).
func allStrings(alphabet string, max int, f func(string)) {
	var rec func(prefix []byte)
	rec = func(prefix []byte) {
		f(string(prefix))
		if len(prefix) == max {
			return
		}
		for i := 0; i < len(alphabet); i++ {
			rec(append(prefix, alphabet[i]))
		}
	}
	rec(nil)
}

func (p c01) textValues(r *core.Result, c core.Case) {
	form := c.Str("form", "node")
	max := c.Int("len", 5)
	const alpha = "ab.-"
	fps := map[string]bool{}
	var comps []string
	allStrings(alpha, max, func(s string) { comps = append(comps, s) })
	var inst []string
	allStrings(alpha+"@", max, func(s string) { inst = append(inst, s) })
	note := func(cls string) {
		if len(fps) < 200000 {
			fps[cls] = true
		}
	}
	switch form {
	case "identity":
		for _, name := range comps {
			for _, dom := range comps {
				if len(name)+len(dom) > max {
					continue
				}
				x := lime.Identity{Name: name, Domain: dom}
				y := lime.ParseIdentity(x.String())
				r.Evals++
				r.Count("textform_values", 1)
				note("identity|" + name + "|" + dom)
				if x != y {
					r.Violate("C01/text/identity", fmt.Sprintf("ParseIdentity(String(%#v)) = %#v (text %q)", x, y, x.String()))
				}
				// MarshalText / UnmarshalText
				b, _ := x.MarshalText()
				var z lime.Identity
				if err := z.UnmarshalText(b); err != nil || z != x {
					r.Violate("C01/text/identity-marshaltext", fmt.Sprintf("%#v -> %q -> %#v (%v)", x, b, z, err))
				}
			}
		}
	case "node":
		for _, name := range comps {
			for _, dom := range comps {
				if len(name)+len(dom) > max {
					continue
				}
				for _, in := range inst {
					if len(name)+len(dom)+len(in) > max {
						continue
					}
					x := lime.Node{Identity: lime.Identity{Name: name, Domain: dom}, Instance: in}
					y := lime.ParseNode(x.String())
					r.Evals++
					r.Count("textform_values", 1)
					note("node|" + name + "|" + dom + "|" + in)
					if x != y {
						r.Violate("C01/text/node", fmt.Sprintf("ParseNode(String(%#v)) = %#v (text %q)", x, y, x.String()))
					}
					b, _ := json.Marshal(x)
					var z lime.Node
					if err := json.Unmarshal(b, &z); err != nil || z != x {
						r.Violate("C01/text/node-json", fmt.Sprintf("%#v -> %s -> %#v (%v)", x, b, z, err))
					}
				}
			}
		}
	case "mediatype":
		for _, t := range comps {
			if t == "" {
				continue
			}
			for _, st := range comps {
				if st == "" || len(t)+len(st) > max {
					continue
				}
				for _, suf := range comps {
					if len(t)+len(st)+len(suf) > max {
						continue
					}
					x := lime.MediaType{Type: t, Subtype: st, Suffix: suf}
					y, err := lime.ParseMediaType(x.String())
					r.Evals++
					r.Count("textform_values", 1)
					note("mt|" + t + "|" + st + "|" + suf)
					if err != nil || x != y {
						r.Violate("C01/text/mediatype", fmt.Sprintf("ParseMediaType(String(%#v)) = %#v, %v (text %q)", x, y, err, x.String()))
					}
				}
			}
		}
	case "uri":
		paths := []string{"/p", "/p/q", "/a%20b", "/", "/ping", "/x/y/z"}
		queries := []string{"", "?x=1", "?$skip=0&$take=10", "?q=%2F", "?a=b&a=c"}
		frags := []string{"", "#f"}
		owners := []string{"", "lime://a@b", "lime://postmaster@msging.net", "lime://b", "lime://a.b-c@d.e"}
		for _, o := range owners {
			for _, pa := range paths {
				for _, q := range queries {
					for _, f := range frags {
						s := o + pa + q + f
						u, err := lime.ParseLimeURI(s)
						r.Evals++
						r.Count("textform_values", 1)
						note("uri|" + s)
						if err != nil {
							r.Violate("C01/text/uri-rejected", fmt.Sprintf("ParseLimeURI(%q): %v", s, err))
							continue
						}
						u2, err := lime.ParseLimeURI(u.String())
						if err != nil || u2.String() != u.String() {
							r.Violate("C01/text/uri", fmt.Sprintf("ParseLimeURI(String(%q)) = %v, %v", u.String(), u2, err))
							continue
						}
						b, _ := json.Marshal(u)
						var z lime.URI
						if err := json.Unmarshal(b, &z); err != nil || z.String() != u.String() || z.Path() != u.Path() {
							r.Violate("C01/text/uri-json", fmt.Sprintf("%q -> %s -> %q (%v)", u.String(), b, z.String(), err))
						}
						if o != "" && o != "lime://b" {
							if ow := u.Owner(); ow == nil || ow.String() == "" {
								r.Violate("C01/text/uri-owner", fmt.Sprintf("%q: owner lost", s))
							}
						}
					}
				}
			}
		}
	}
	for k := range fps {
		r.Fingerprints = append(r.Fingerprints, k)
	}
	if r.Sample == nil {
		r.Sample = map[string]interface{}{"text_form": form, "alphabet": alpha, "max_total_length": max}
	}
}

func (p c01) textStrings(r *core.Result, c core.Case) {
	form := c.Str("form", "node")
	max := c.Int("len", 5)
	first := c.Int("first", 0)
	const alpha = "ab@/+:?%"
	nontrivial := 0
	check := func(s string) {
		r.Evals++
		r.Count("textform_strings", 1)
		switch form {
		case "identity":
			x := lime.ParseIdentity(s)
			y := lime.ParseIdentity(x.String())
			if x != y {
				r.Violate("C01/strings/identity", fmt.Sprintf("ParseIdentity(%q)=%#v but ParseIdentity(String(.))=%#v", s, x, y))
			}
		case "node":
			x := lime.ParseNode(s)
			y := lime.ParseNode(x.String())
			if x != y {
				r.Violate("C01/strings/node", fmt.Sprintf("ParseNode(%q)=%#v but ParseNode(String(.))=%#v", s, x, y))
			}
		case "mediatype":
			x, err := lime.ParseMediaType(s)
			if err != nil {
				return
			}
			nontrivial++
			y, err := lime.ParseMediaType(x.String())
			if err != nil || x != y {
				r.Violate("C01/strings/mediatype", fmt.Sprintf("ParseMediaType(%q)=%#v accepted, but ParseMediaType(String(.)=%q) = %#v, %v", s, x, x.String(), y, err))
			}
		case "uri":
			x, err := lime.ParseLimeURI(s)
			if err != nil {
				return
			}
			nontrivial++
			y, err := lime.ParseLimeURI(x.String())
			if err != nil || y.String() != x.String() {
				ys := ""
				if y != nil {
					ys = y.String()
				}
				r.Violate("C01/strings/uri", fmt.Sprintf("ParseLimeURI(%q) accepted with String %q, but re-parsing that gives %q, %v", s, x.String(), ys, err))
			}
		}
	}
	if first == 0 {
		check("")
	}
	var rec func(prefix []byte)
	rec = func(prefix []byte) {
		check(string(prefix))
		if len(prefix) == max {
			return
		}
		for i := 0; i < len(alpha); i++ {
			rec(append(prefix, alpha[i]))
		}
	}
	rec([]byte{alpha[first]})
	r.NonTrivial = true
	r.Fingerprint = fmt.Sprintf("strings|%s|%d|%d", form, first, max)
	r.Count("textform_strings_accepted", nontrivial)
	_ = time.Now
}

// c01typedDecodeAny decodes bytes with the typed decoder that matches the keys present (the same discrimination
// the protocol uses), falling back to trying them all.
func c01typedDecodeAny(b []byte) (interface{}, error) {
	var keys map[string]json.RawMessage
	if err := json.Unmarshal(b, &keys); err == nil {
		kind := ""
		switch {
		case keys["state"] != nil:
			kind = "session"
		case keys["method"] != nil && keys["uri"] != nil:
			kind = "request"
		case keys["method"] != nil && keys["status"] != nil:
			kind = "response"
		case keys["event"] != nil:
			kind = "notification"
		case keys["content"] != nil:
			kind = "message"
		}
		if kind != "" {
			return c01typedDecode(kind, b)
		}
	}
	var lastErr error
	for _, k := range []string{"session", "request", "response", "notification", "message"} {
		v, err := c01typedDecode(k, b)
		if err == nil {
			return v, nil
		}
		lastErr = err
	}
	return nil, lastErr
}
