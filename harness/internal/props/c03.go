package props

import (
	"verif/harness/internal/core"
)

// C03 — No session is established without successful authentication.
type c03 struct{}

func init() { core.Register(c03{}) }

func (c03) ID() string                  { return "C03" }
func (c03) Level() string               { return "exploration" }
func (c03) ChildParallel() int          { return 1 }
func (c03) Exhaustive(tier string) bool { return false }
func (c03) Rule() string {
	return "Handshake explorer (see C07's rule for the engine, alphabet and enumeration) with programmable callbacks: the Authenticate outcome tape covers known roles, unknown role, empty role, round trip (with unknown and with empty role), error; Register echoes, assigns a fresh node, or errors; plus ServerBuilder's own authenticate closure with and without registered authenticators. " +
		"Monitor: every way the session can be seen as established (established envelope on the wire, verifState transition, Established callback) requires, in the same client step: an Authenticate invocation that returned a known role, invoked with the identity and credentials the step's authenticating envelope carried, under an offered scheme and the right session id; a Register invocation with the envelope's from as candidate, before the channel is established; the established envelope's 'to' (and RemoteNode) equal to the node Register returned. A client violation must not reach Authenticate at all. " +
		"Non-trivial = script that reached the authentication stage; distinct = (config, script)."
}
func (c03) Assumptions() []string {
	return []string{"callbacks are the harness' (a user callback that approves bad credentials is out of scope)"}
}
func (c03) Floors(tier string) map[string]int {
	return map[string]int{"runs": 1500, "reached_authentication": 300, "authenticate_invocations": 300, "register_invocations": 100, "established": 50, "auth_rounds": 300}
}
func (c03) Plan(tier string, seed uint64) []core.Case {
	return explorerCases("C03", tier, seed, hsConfigs(tier))
}
func (c03) Run(c core.Case) core.Result {
	var r core.Result
	r.Verdict = core.Held
	runExplorerCase(&r, []string{"C03"}, c)
	return r
}
