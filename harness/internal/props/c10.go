package props

import (
	"context"
	"fmt"
	"net"
	"sync"
	"time"

	lime "github.com/takenet/lime-go"

	"verif/harness/internal/core"
	"verif/harness/internal/hs"
	"verif/harness/internal/rig"
)

// C10 — A server that does not offer cleartext never authenticates over cleartext.
type c10 struct{}

func init() { core.Register(c10{}) }

func (c10) ID() string                  { return "C10" }
func (c10) Level() string               { return "exploration" }
func (c10) ChildParallel() int          { return 1 }
func (c10) Exhaustive(tier string) bool { return false }
func (c10) Rule() string {
	return "Handshake explorer (see C07's rule) restricted to configurations whose EncryptOpts exclude 'none' on a TLS-capable TCP connection: EncryptOpts [tls] x CompOpts {[none],[none,gzip],[gzip]} x 5 scheme sets x authenticator source {tape member, tape roundtrip, ServerBuilder} x client {upgrades to TLS when confirmed, keeps talking cleartext after the confirmation}; the whole client alphabet (skip negotiation, refuse it, select unoffered/absent/unknown options, garbage) enumerated breadth-first. Controls recorded but not judged: [none,tls], and [tls] on a connection without TLS configuration. " +
		"Monitor: no authentication request on the wire in cleartext, no Authenticate invocation and no establishment while the server transport's Encryption() (sampled inside the callbacks) is none. Real listeners: TLS-only Server on a real TCP listener and on a secure-WebSocket listener against library clients with every selector and raw clients; Established callback samples the server transport. " +
		"Non-trivial = all runs under a configuration satisfying the precondition; distinct = (config, script)."
}
func (c10) Assumptions() []string {
	return []string{"'the connection can provide one of the configured options' = TCP transport with a TLS configuration, or a wss listener"}
}
func (c10) Floors(tier string) map[string]int {
	return map[string]int{"runs": 1500, "reached_negotiation": 500, "tls_upgrades": 100, "established": 50, "authenticate_invocations": 100, "real_runs": 8}
}

func c10configs(tier string) []hs.Config {
	var out []hs.Config
	add := func(c hs.Config) {
		c.Name = fmt.Sprintf("tlsonly%02d", len(out))
		out = append(out, c)
	}
	schemes := [][]string{{"guest"}, {"plain"}, {"guest", "plain", "key"}, {"transport"}, {"external", "key"}}
	comps := [][]string{{"none"}, {"none", "gzip"}, {"gzip"}}
	n := 0
	for ci, comp := range comps {
		for si, sch := range schemes {
			n++
			if tier != "thorough" && (ci+si)%3 != 0 {
				continue
			}
			src := []string{"tape", "builder", "tape"}[n%3]
			tape := [][]string{{"member"}, {"roundtrip", "member"}}[n%2]
			add(hs.Config{Comp: comp, Enc: []string{"tls"}, Schemes: sch, TLSCapable: true, AuthSource: src, Tape: tape, Register: "echo"})
			if n%2 == 0 || tier == "thorough" {
				add(hs.Config{Comp: comp, Enc: []string{"tls"}, Schemes: sch, TLSCapable: true, AuthSource: src, Tape: tape, Register: "echo", ClientSkipsTLS: true})
			}
		}
	}
	// the certificate may reach crypto/tls in three ways; the connection "can provide" TLS in all of them
	add(hs.Config{Comp: comps[0], Enc: []string{"tls"}, Schemes: schemes[0], TLSCapable: true, AuthSource: "tape", Tape: []string{"member"}, Register: "echo", TLSVia: "getconfig"})
	add(hs.Config{Comp: comps[0], Enc: []string{"tls"}, Schemes: schemes[1], TLSCapable: true, AuthSource: "tape", Tape: []string{"member"}, Register: "echo", TLSVia: "getcert"})
	// controls (precondition false): recorded only
	add(hs.Config{Comp: comps[0], Enc: []string{"none", "tls"}, Schemes: schemes[0], TLSCapable: true, AuthSource: "tape", Tape: []string{"member"}, Register: "echo"})
	add(hs.Config{Comp: comps[0], Enc: []string{"tls"}, Schemes: schemes[0], TLSCapable: false, AuthSource: "tape", Tape: []string{"member"}, Register: "echo"})
	return out
}

func (c10) Plan(tier string, seed uint64) []core.Case {
	cases := explorerCases("C10", tier, seed, c10configs(tier))
	cases = append(cases, core.Case{ID: "C10/real/tcp", Engine: "real", Seed: seed, P: map[string]interface{}{"flavour": rig.TLS}, TimeoutS: 120})
	cases = append(cases, core.Case{ID: "C10/real/wss", Engine: "real", Seed: seed, P: map[string]interface{}{"flavour": rig.WSS}, TimeoutS: 120})
	return cases
}

func (p c10) Run(c core.Case) core.Result {
	var r core.Result
	r.Verdict = core.Held
	if c.Engine == "real" {
		p.real(&r, c)
		return r
	}
	runExplorerCase(&r, []string{"C10"}, c)
	return r
}

func (p c10) real(r *core.Result, c core.Case) {
	flavour := c.Str("flavour", rig.TLS)
	var mu sync.Mutex
	type est struct{ enc string }
	var ests []est
	cfg := rig.DefaultServerConfig()
	cfg.EncryptOpts = []lime.SessionEncryption{lime.SessionEncryptionTLS}
	cfg.SchemeOpts = []lime.AuthenticationScheme{lime.AuthenticationSchemeGuest, lime.AuthenticationSchemePlain}
	authCalls := 0
	cfg.Authenticate = func(ctx context.Context, id lime.Identity, a lime.Authentication) (*lime.AuthenticationResult, error) {
		mu.Lock()
		authCalls++
		mu.Unlock()
		return lime.MemberAuthenticationResult(), nil
	}
	cfg.Established = func(id string, sc *lime.ServerChannel) {
		mu.Lock()
		ests = append(ests, est{string(sc.VerifTransport().Encryption())})
		mu.Unlock()
	}
	lf := rig.TCP
	if flavour == rig.WSS {
		lf = rig.WSS
	}
	sr, err := rig.StartServer(cfg, nil, []string{lf}, 0)
	if err != nil {
		r.Verdict = core.Inconclusive
		r.Note = err.Error()
		return
	}
	defer sr.Close(10 * time.Second)
	fps := map[string]bool{}
	selectors := map[string]lime.EncryptionSelector{
		"tls":   lime.TLSEncryptionSelector,
		"none":  lime.NoneEncryptionSelector,
		"first": func(o []lime.SessionEncryption) lime.SessionEncryption { return o[0] },
		"default": func(o []lime.SessionEncryption) lime.SessionEncryption {
			for _, x := range o {
				if x == lime.SessionEncryptionTLS {
					return x
				}
			}
			return o[0]
		},
	}
	for name, sel := range selectors {
		mu.Lock()
		before := len(ests)
		authBefore := authCalls
		mu.Unlock()
		ctx, cancel := context.WithTimeout(context.Background(), 15*time.Second)
		t, err := sr.Dial(ctx, lf, 4, nil)
		if err != nil {
			cancel()
			r.Verdict = core.Inconclusive
			r.Note = err.Error()
			return
		}
		cc := lime.NewClientChannel(t, 4)
		var clientEncAtAuth lime.SessionEncryption
		ses, err := func() (s *lime.Session, err error) {
			defer func() {
				if p := recover(); p != nil {
					err = fmt.Errorf("client panic (selector on empty list): %v", p)
				}
			}()
			return cc.EstablishSession(ctx, lime.NoneCompressionSelector, sel, lime.Identity{Name: "u-" + name, Domain: "verif.local"}, func(s []lime.AuthenticationScheme, rt lime.Authentication) lime.Authentication {
				clientEncAtAuth = t.Encryption()
				return &lime.GuestAuthentication{}
			}, "i")
		}()
		cancel()
		r.Evals++
		r.Count("real_runs", 1)
		fps["real|"+flavour+"|"+name] = true
		established := err == nil && ses != nil && ses.State == lime.SessionStateEstablished
		time.Sleep(20 * time.Millisecond)
		mu.Lock()
		newEsts := append([]est{}, ests[before:]...)
		authNow := authCalls - authBefore
		mu.Unlock()
		if established {
			r.Count("real_established", 1)
			if t.Encryption() != lime.SessionEncryptionTLS || clientEncAtAuth != lime.SessionEncryptionTLS {
				r.Violate("C10/real/client-cleartext/"+flavour, fmt.Sprintf("%s, selector %s: session established with a TLS-only server while the client transport's encryption is %q (at authentication: %q)", flavour, name, t.Encryption(), clientEncAtAuth))
			}
		} else if authNow > 0 && (name == "none") && flavour == rig.TLS {
			r.Violate("C10/real/authenticated-refusing-client/"+flavour, fmt.Sprintf("%s, selector none: the TLS-only server invoked Authenticate %d times for a client that refused TLS", flavour, authNow))
		}
		for _, e := range newEsts {
			if e.enc != "tls" {
				r.Violate("C10/real/established-in-cleartext/"+flavour, fmt.Sprintf("%s, selector %s: TLS-only server established a session while its transport's encryption is %q", flavour, name, e.enc))
			}
		}
		if (name == "tls" || name == "default" || name == "first") && !established {
			r.Violate("C10/real/cooperative-client-refused/"+flavour, fmt.Sprintf("%s, selector %s: a cooperative client could not establish a session with the TLS-only server: %v %v", flavour, name, err, ses))
		}
		if established {
			fctx, fc := context.WithTimeout(context.Background(), 10*time.Second)
			_, _ = cc.FinishSession(fctx)
			fc()
		}
		_ = cc.Close()
	}
	// raw client on the TCP listener that sends credentials straight away
	if flavour == rig.TLS {
		conn, err := net.DialTimeout("tcp", sr.Addr(rig.TCP).String(), 5*time.Second)
		if err == nil {
			peer := rig.NewRawPeer(conn)
			_ = peer.SendJSON(map[string]interface{}{"state": "new"})
			m, _ := peer.Read(5 * time.Second)
			r.Evals++
			r.Count("real_runs", 1)
			fps["real|raw-skip"] = true
			if m != nil && m["state"] == "authenticating" {
				r.Violate("C10/auth-request-in-cleartext", fmt.Sprintf("TLS-only server on a real TCP listener requested credentials in cleartext: %v", m))
			}
			id, _ := m["id"].(string)
			mu.Lock()
			authBefore := authCalls
			mu.Unlock()
			_ = peer.SendJSON(map[string]interface{}{"id": id, "state": "authenticating", "from": "x@verif.local/i", "scheme": "plain", "authentication": map[string]interface{}{"password": "cA=="}})
			m2, _ := peer.Read(3 * time.Second)
			mu.Lock()
			authNow := authCalls - authBefore
			mu.Unlock()
			if authNow > 0 || (m2 != nil && m2["state"] == "established") {
				r.Violate("C10/authenticate-in-cleartext", fmt.Sprintf("TLS-only server on a real TCP listener accepted credentials sent in cleartext (Authenticate calls %d, answer %v)", authNow, m2))
			}
			peer.Close()
		}
	}
	for k := range fps {
		r.Fingerprints = append(r.Fingerprints, k)
	}
	r.Sample = map[string]interface{}{"listener": flavour, "selectors": []string{"tls", "none", "first", "default"}}
}
