package props

import (
	"verif/harness/internal/core"
)

// C07 — Server handshake follows the protocol order and fails closed.
type c07 struct{}

func init() { core.Register(c07{}) }

func (c07) ID() string                  { return "C07" }
func (c07) Level() string               { return "exploration" }
func (c07) ChildParallel() int          { return 1 }
func (c07) Exhaustive(tier string) bool { return false }
func (c07) Rule() string {
	return "Handshake explorer: the real Server (harness TransportListener handing out real tcpTransports over an in-memory connection) against scripted raw clients. Scripts over a 46-symbol alphabet (every session state, id variants, option choices incl. unoffered/unknown/absent, 14 credential classes, valid credentials under a wrong session state, non-session envelopes, undecodable input, truncation, disconnect, half-close, pipelining) are enumerated breadth-first to the depth bound, extending only prefixes after which the server still waits for input (suffixes after a close are unobservable); plus seeded random walks. Configurations: representative lattice of EncryptOpts x CompOpts x SchemeOpts x TLS capability x authenticator source x callback outcome tape x register mode (8 quick / 80 thorough). " +
		"Each trace is labelled by a reference classifier (DESIGN.md Appendix A) and replayed against the implementation (every trace IS an execution of the implementation: traces_validated_against_impl = runs). Oracle: emitted states in N{0,2}A*E?(F|X)?, single session id, from = server node, verifState trace monotone, a client violation inside the exchange => exactly one failed with reason, silence, close; conforming scripts with an accepting tape reach established. " +
		"Quiescence is decided on the connection state (server blocked reading with empty buffers), not on timeouts. Non-trivial = script that reached negotiation/authentication or contains a client violation; distinct = (config, script)."
}
func (c07) Assumptions() []string {
	return []string{"authentication/registration callbacks are the harness' (outcome tape) or ServerBuilder's own closure with harness authenticators", "only the TCP transport is explored exhaustively; other transports are covered by the session rig checks"}
}
func (c07) Floors(tier string) map[string]int {
	return map[string]int{"runs": 1500, "reached_authentication": 300, "reached_negotiation": 100, "established": 50, "established_by_conforming_script": 5, "scripts_with_client_violation": 300, "terminal_failed": 200, "state_transitions": 1000, "tls_upgrades": 5}
}
func (c07) Plan(tier string, seed uint64) []core.Case {
	return explorerCases("C07", tier, seed, hsConfigs(tier))
}
func (c07) Run(c core.Case) core.Result {
	var r core.Result
	r.Verdict = core.Held
	runExplorerCase(&r, []string{"C07"}, c)
	return r
}
