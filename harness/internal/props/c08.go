package props

import (
	"encoding/json"
	"fmt"
	"strings"

	"verif/harness/internal/core"
	"verif/harness/internal/hs"
)

// C08 — Client handshake tolerates any server and reports establishment truthfully.
type c08 struct{}

func init() { core.Register(c08{}) }

func (c08) ID() string                  { return "C08" }
func (c08) Level() string               { return "exploration" }
func (c08) ChildParallel() int          { return 1 }
func (c08) Exhaustive(tier string) bool { return false }
func (c08) Rule() string {
	return "Mirrored handshake explorer: the real ClientChannel.EstablishSession (and, on a sampled subset, the high-level Client's buildChannel) over an in-memory connection against scripted server replies over a 29-symbol alphabet: session envelopes of every state (including regressions and 'new'), id variants (same, different, absent), option lists (normal, empty, unknown), confirmations (none, tls with a real TLS handshake, absent, unknown), scheme lists, round-trip data, established with/without nodes, finishing/finished/failed (with and without reason), non-session envelopes, undecodable bytes, disconnect. Scripts are enumerated breadth-first to the depth bound, extending only prefixes after which the client still waits for input; plus seeded random walks. Client configurations: selector {none, tls, first-option (total on empty lists)} x authenticator {guest, plain, round-trip aware}. " +
		"Oracle: no panic (a panic on a library goroutine kills the child and is attributed to the script); an established channel only if the server's last session envelope was 'established', with exactly its id/to/from adopted; every client envelope after the first echoes the id of the server's latest session envelope; credentials only directly after an authentication request; connection closed after finished/failed; establishment returns after the server disconnects. Quiescence is decided on the connection state. Non-trivial = script with >=2 server session envelopes; distinct = (client config, script)."
}
func (c08) Assumptions() []string {
	return []string{"selector and authenticator callbacks are total functions (the statement conditions on callbacks that return normally)"}
}
func (c08) Floors(tier string) map[string]int {
	return map[string]int{"runs": 1500, "established_truthfully": 30, "regressions_played": 50, "auth_rounds": 200, "negotiations": 200, "tls_upgrades": 5, "client_closed_after_terminal": 100, "high_level_runs": 10}
}

func c08configs(tier string) []hs.ClientConfig {
	var out []hs.ClientConfig
	for _, sel := range []string{"none", "tls", "first"} {
		for _, auth := range []string{"guest", "plain", "roundtrip-aware"} {
			if tier != "thorough" && !((sel == "none" && auth == "guest") || (sel == "tls" && auth == "plain") || (sel == "first" && auth == "roundtrip-aware")) {
				continue
			}
			out = append(out, hs.ClientConfig{Name: sel + "+" + auth, Selector: sel, Auth: auth})
		}
	}
	return out
}

func (c08) Plan(tier string, seed uint64) []core.Case {
	var cases []core.Case
	depth, frontier, walks := 4, 40, 300
	if tier == "thorough" {
		depth, frontier, walks = 5, 80, 3000
	}
	alpha := hs.ServerAlphabet()
	for ci, cfg := range c08configs(tier) {
		// split the first symbol over cases so that the enumeration spreads over the children
		for part := 0; part < 4; part++ {
			var firsts []string
			for i, s := range alpha {
				if i%4 == part {
					firsts = append(firsts, s)
				}
			}
			cases = append(cases, core.Case{ID: fmt.Sprintf("C08/explore/%s/%d", cfg.Name, part), Engine: "explore", Seed: core.Derive(seed, uint64(ci), uint64(part)).Uint64(),
				P: map[string]interface{}{"config": cfg, "depth": depth, "frontier": frontier, "walks": walks / 4, "firsts": firsts}, TimeoutS: 900})
		}
	}
	cases = append(cases, core.Case{ID: "C08/highlevel", Engine: "highlevel", Seed: seed, P: map[string]interface{}{"all_pairs": tier == "thorough"}, TimeoutS: 900})
	return cases
}

func (p c08) Run(c core.Case) core.Result {
	var r core.Result
	r.Verdict = core.Held
	fps := map[string]bool{}
	judge := func(tr *hs.CTrace) {
		r.Evals++
		r.Count("runs", 1)
		nses := 0
		prevStep := -1
		order := map[string]int{"new": 0, "negotiating": 1, "authenticating": 2, "established": 3, "finishing": 4, "finished": 5, "failed": 6}
		for _, e := range tr.Events {
			switch e.T {
			case "s-send":
				if e.Env != nil {
					if st, ok := e.Env["state"].(string); ok {
						nses++
						if order[st] < prevStep {
							r.Count("regressions_played", 1)
						}
						prevStep = order[st]
					}
				}
			case "c-recv":
				if e.Env != nil {
					if e.Env["state"] == "authenticating" {
						r.Count("auth_rounds", 1)
					}
					if e.Env["state"] == "negotiating" {
						r.Count("negotiations", 1)
					}
				}
			case "tls-up":
				r.Count("tls_upgrades", 1)
			}
		}
		if tr.Config.HighLevel {
			r.Count("high_level_runs", 1)
		}
		issues := hs.ClassifyClient(tr)
		if tr.Established && len(issues) == 0 {
			r.Count("established_truthfully", 1)
		}
		if tr.ClientClosed {
			for _, e := range tr.Events {
				if e.T == "s-send" && e.Env != nil && (e.Env["state"] == "finished" || e.Env["state"] == "failed") {
					r.Count("client_closed_after_terminal", 1)
					break
				}
			}
		}
		if nses >= 2 {
			fps[tr.Config.Name+"|"+strings.Join(tr.Script, " ")] = true
		}
		for _, is := range issues {
			if (is.Key == "C08/stuck" || is.Key == "C08/blocked-after-disconnect") && core.CanaryWorstMS() > 250 {
				r.Count("inconclusive_under_load", 1)
				continue
			}
			r.Violate(is.Key, fmt.Sprintf("client{%s highlevel=%v}: %s", tr.Config.Name, tr.Config.HighLevel, is.Detail))
			if len(r.Log) < 80 {
				r.Logf("--- %s script %v", is.Key, tr.Script)
				for _, e := range tr.Events {
					b, _ := json.Marshal(e)
					r.Logf("%s", b)
				}
				r.Logf("result: returned=%v err=%q state=%s established=%v id=%s local=%s remote=%s closed=%v", tr.Returned, tr.Err, tr.State, tr.Established, tr.ID, tr.Local, tr.Remote, tr.ClientClosed)
			}
		}
		if r.Sample == nil && tr.Established {
			r.Sample = map[string]interface{}{"client_config": tr.Config, "server_script": tr.Script, "events": len(tr.Events), "adopted_id": tr.ID, "local": tr.Local, "remote": tr.Remote}
		}
	}
	alpha := hs.ServerAlphabet()
	switch c.Engine {
	case "explore":
		var cfg hs.ClientConfig
		b, _ := json.Marshal(c.P["config"])
		_ = json.Unmarshal(b, &cfg)
		rng := core.NewRng(c.Seed)
		frontier := [][]string{}
		bad := 0
		for _, f := range c.Strs("firsts") {
			tr := hs.RunClient(cfg, []string{f})
			judge(tr)
			if tr.Waiting && !tr.Stuck {
				frontier = append(frontier, []string{f})
			}
		}
		depth := c.Int("depth", 3)
		fcap := c.Int("frontier", 30)
	bfs:
		for d := 2; d <= depth; d++ {
			var next [][]string
			for _, p := range frontier {
				for _, sym := range alpha {
					sc := append(append([]string{}, p...), sym)
					tr := hs.RunClient(cfg, sc)
					judge(tr)
					if tr.Stuck || tr.StuckAfterDisconnect {
						bad++
						if bad > 5 {
							break bfs
						}
					}
					if tr.Waiting && !tr.Stuck && sym != "disconnect" {
						next = append(next, sc)
					}
				}
			}
			if len(next) > fcap {
				keep := next[:fcap/2]
				rest := next[fcap/2:]
				perm := rng.Perm(len(rest))
				for _, i := range perm[:fcap-fcap/2] {
					keep = append(keep, rest[i])
				}
				next = keep
			}
			frontier = next
			if len(frontier) == 0 {
				break
			}
		}
		plausible := []string{"negopts", "negconf:none", "negconf:tls", "authreq", "roundtrip", "established", "failed", "finished", "authreq:id2", "negopts:id2"}
		for w := 0; w < c.Int("walks", 0) && bad <= 5; w++ {
			var sc []string
			n := 2 + rng.Intn(5)
			for k := 0; k < n; k++ {
				if rng.Chance(2, 3) {
					sc = append(sc, plausible[rng.Intn(len(plausible))])
				} else {
					sc = append(sc, alpha[rng.Intn(len(alpha))])
				}
			}
			tr := hs.RunClient(cfg, sc)
			judge(tr)
			if tr.Stuck || tr.StuckAfterDisconnect {
				bad++
			}
		}
	case "highlevel":
		scripts := [][]string{
			{"authreq", "established"}, {"negopts", "negconf:none", "authreq", "established"}, {"authreq", "failed"}, {"authreq", "finished"},
			{"negopts", "failed"}, {"negopts", "negconf:none", "failed"}, {"established"}, {"authreq", "negopts"}, {"authreq", "authreq:id2", "established:id2"},
			{"negopts", "negconf:none"}, {"authreq"}, {"authreq", "roundtrip", "established"}, {"authreq", "msg"}, {"garbage"}, {"authreq", "disconnect"},
			{"negopts", "negconf:tls", "authreq", "established"}, {"authreq", "established:noid"}, {"authreq", "established:nonodes"}, {"negopts", "negconf:none", "finishing"}, {"new"},
			{"authreq", "finishing"}, {"negopts", "authreq"}, {"negopts", "negconf:absent", "authreq", "established"},
		}
		// plus every script of one or two server symbols (terminal envelopes with and without a reason, ...)
		alpha := hs.ServerAlphabet()
		for _, a := range alpha {
			scripts = append(scripts, []string{a})
			if a == "authreq" || a == "negopts" || (c.Bool("all_pairs") && a != "disconnect" && a != "garbage") {
				for _, b := range alpha {
					scripts = append(scripts, []string{a, b})
				}
			}
		}
		for _, sc := range scripts {
			tr := hs.RunClient(hs.ClientConfig{Name: "hl-none+guest", Selector: "none", Auth: "guest", HighLevel: true}, sc)
			judge(tr)
			if len(r.Findings) > 30 {
				break
			}
		}
	}
	for k := range fps {
		r.Fingerprints = append(r.Fingerprints, k)
	}
	return r
}
