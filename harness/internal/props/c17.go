package props

import (
	"context"
	"encoding/json"
	"fmt"
	"net"
	"runtime"
	"sort"
	"strings"
	"sync"
	"sync/atomic"
	"time"

	"github.com/gorilla/websocket"
	lime "github.com/takenet/lime-go"

	"verif/harness/internal/core"
	"verif/harness/internal/rig"
)

// C17 — Concurrent sessions are isolated and handlers see their own session.
type c17 struct{}

func init() { core.Register(c17{}) }

func (c17) ID() string                  { return "C17" }
func (c17) Level() string               { return "exploration" }
func (c17) ChildParallel() int          { return 1 }
func (c17) Exhaustive(tier string) bool { return false }
func (c17) Rule() string {
	return "One real Server with TCP, WebSocket and in-process listeners at once; N clients (quick N in {2,8,32}, thorough up to 256, partly under the race detector) spread over them; the Register callback assigns adversarially similar addresses (same domain, names/instances that are prefixes of each other). Every client sends all four envelope kinds with unique tokens; the handler of each kind reports, through the Sender it was given (notifications: through the session's own channel), what it saw: the token, ContextSessionID / ContextSessionRemoteNode / ContextSessionLocalNode, and the pp / metadata / from it received. Concurrently, intruder connections (raw TCP and WebSocket, no session) send JSON that fails to decode after some fields were filled in. " +
		"Oracle per report: it arrives at the client that sent the token and at no other; the context values equal the id / local node / remote node of that client's established envelope (cross-checked with the Register assignment and the server-side Established callback); no field the client did not send (pp, metadata) appears on either side; all session ids are distinct. Non-trivial = run with >=2 sessions concurrently inside handlers (measured); distinct = (N, seed)."
}
func (c17) Assumptions() []string {
	return []string{"handlers echo through the Sender they are handed; notification handlers (which get no Sender) use the ServerChannel captured at establishment"}
}
func (c17) Floors(tier string) map[string]int {
	return map[string]int{"sessions": 40, "reports_checked": 1500, "handler_overlap_max": 2, "intruder_inputs": 50, "kinds_reported": 4}
}

func (c17) Plan(tier string, seed uint64) []core.Case {
	var cases []core.Case
	ns := []int{2, 8, 32}
	per := 40
	if tier == "thorough" {
		ns = []int{2, 8, 32, 64, 128, 256}
		per = 60
	}
	for i, n := range ns {
		reps := 3
		if tier == "thorough" && n <= 32 {
			reps = 6
		}
		for rep := 0; rep < reps; rep++ {
			cases = append(cases, core.Case{ID: fmt.Sprintf("C17/n%d/%d", n, rep), Engine: "mixed", Seed: core.Derive(seed, uint64(i), uint64(rep)).Uint64(), P: map[string]interface{}{"n": n, "per": per, "race": tier == "thorough" && rep%2 == 1}, TimeoutS: 300})
		}
	}
	// a server assembled with ServerBuilder (AutoReplyPings + catch-all handlers): concurrent pings from every session,
	// and handlers whose answers fail on one session while other sessions are being answered
	nb := 2
	if tier == "thorough" {
		nb = 8
	}
	for i := 0; i < nb; i++ {
		cases = append(cases, core.Case{ID: fmt.Sprintf("C17/builder/%d", i), Engine: "builder", Seed: core.Derive(seed, 50, uint64(i)).Uint64(), P: map[string]interface{}{"n": 8, "per": 250, "race": tier == "thorough" && i%2 == 1}, TimeoutS: 300})
	}
	return cases
}

// builderEngine: see Plan.
func (p c17) builderEngine(r *core.Result, c core.Case) {
	n, per := c.Int("n", 8), c.Int("per", 250)
	var catchAll int64
	b := lime.NewServerBuilder().
		AutoReplyPings().
		RequestCommandsHandlerFunc(func(ctx context.Context, cmd *lime.RequestCommand, sd lime.Sender) error {
			atomic.AddInt64(&catchAll, 1)
			return sd.SendResponseCommand(ctx, cmd.FailureResponse(&lime.Reason{Code: 99, Description: "catch-all"}))
		}).
		MessagesHandlerFunc(func(ctx context.Context, m *lime.Message, sd lime.Sender) error {
			sid, _ := lime.ContextSessionID(ctx)
			if strings.HasPrefix(m.ID, "failreply-") {
				// an answer that cannot be sent: its context is already over
				dead, dc := context.WithCancel(ctx)
				dc()
				secret := &lime.Message{}
				secret.ID = "secret-of-" + sid
				secret.SetContent(lime.TextDocument("only for session " + sid))
				_ = sd.SendMessage(dead, secret)
				return nil
			}
			echo := &lime.Message{}
			echo.ID = "echo-" + m.ID
			echo.SetContent(lime.TextDocument(sid))
			return sd.SendMessage(ctx, echo)
		})
	mux := b.ListenInProcess(rig.NewInProcAddr()).Build().VerifMux() // never started: only the handler table it assembled
	cfg := rig.DefaultServerConfig()
	cfg.ChannelBufferSize = 8
	flavours := []string{rig.TCP, rig.WS, rig.InProc}
	sr, err := rig.StartServer(cfg, mux, flavours, 0)
	if err != nil {
		r.Verdict = core.Inconclusive
		r.Note = err.Error()
		return
	}
	defer sr.Close(20 * time.Second)
	ctx, cancel := context.WithTimeout(context.Background(), 120*time.Second)
	defer cancel()
	type res struct{ key, detail string }
	var mu sync.Mutex
	var bad []res
	violate := func(k, d string) {
		mu.Lock()
		if len(bad) < 12 {
			bad = append(bad, res{k, d})
		}
		mu.Unlock()
	}
	var pings, echoes, failReplies int64
	var wg sync.WaitGroup
	for i := 0; i < n; i++ {
		f := flavours[i%len(flavours)]
		if i < 4 {
			f = rig.TCP // the sessions that share one kind of connection
		}
		name := fmt.Sprintf("cli%02d", i)
		cc, ses, err := sr.EstablishClient(ctx, f, 8, 8, lime.Identity{Name: name, Domain: "verif.local"}, "i")
		if err != nil {
			r.Verdict = core.Inconclusive
			r.Note = "establish: " + err.Error()
			return
		}
		me := ses.To
		wg.Add(1)
		go func(i int, cc *lime.ClientChannel, sid string) {
			defer wg.Done()
			defer cc.Close()
			go func() {
				for range cc.NotChan() {
				}
			}()
			go func() {
				for range cc.ReqCmdChan() {
				}
			}()
			for k := 0; k < per; k++ {
				octx, oc := context.WithTimeout(ctx, 20*time.Second)
				switch {
				case k%5 == 4 && i%2 == 0:
					// this session makes the server's answer fail
					m := &lime.Message{}
					m.ID = fmt.Sprintf("failreply-%s-%d", name, k)
					m.SetContent(lime.TextDocument("x"))
					_ = cc.SendMessage(octx, m)
					atomic.AddInt64(&failReplies, 1)
				case k%2 == 0:
					req := &lime.RequestCommand{}
					req.ID = fmt.Sprintf("%s-p%d", name, k)
					req.From = me
					req.Method = lime.CommandMethodGet
					req.SetURIString("/ping")
					if err := cc.SendRequestCommand(octx, req); err != nil {
						violate("C17/builder/send-failed", fmt.Sprintf("%s: ping could not be sent: %v", name, err))
						oc()
						return
					}
					select {
					case resp, ok := <-cc.RespCmdChan():
						atomic.AddInt64(&pings, 1)
						switch {
						case !ok:
							violate("C17/builder/session-lost", fmt.Sprintf("%s (session %s): the response stream ended while waiting for the answer to %s", name, sid, req.ID))
							oc()
							return
						case resp.ID != req.ID:
							violate("C17/builder/foreign-response", fmt.Sprintf("%s (session %s) asked %s and received the answer with id %q, to %q", name, sid, req.ID, resp.ID, resp.To.String()))
						case resp.To != me:
							violate("C17/builder/foreign-address", fmt.Sprintf("%s (session %s, node %s) received the answer to its own ping %s addressed to %q", name, sid, me.String(), req.ID, resp.To.String()))
						case resp.Status != lime.CommandStatusSuccess:
							violate("C17/builder/ping-not-auto-replied", fmt.Sprintf("%s: the ping %s was answered with status %s (reason %v): AutoReplyPings was registered before the catch-all", name, req.ID, resp.Status, resp.Reason))
						}
					case <-octx.Done():
						violate("C17/builder/no-answer", fmt.Sprintf("%s (session %s): no answer to ping %s within 20 s", name, sid, req.ID))
						oc()
						return
					}
				default:
					m := &lime.Message{}
					m.ID = fmt.Sprintf("%s-m%d", name, k)
					m.SetContent(lime.TextDocument("x"))
					if err := cc.SendMessage(octx, m); err != nil {
						violate("C17/builder/send-failed", fmt.Sprintf("%s: message could not be sent: %v", name, err))
						oc()
						return
					}
					select {
					case got, ok := <-cc.MsgChan():
						atomic.AddInt64(&echoes, 1)
						switch {
						case !ok:
							violate("C17/builder/session-lost", fmt.Sprintf("%s (session %s): the message stream ended while waiting for the echo of %s", name, sid, m.ID))
							oc()
							return
						case got.ID != "echo-"+m.ID:
							violate("C17/builder/foreign-message", fmt.Sprintf("%s (session %s) sent %s and received message %q with content %v", name, sid, m.ID, got.ID, got.Content))
						default:
							txt := ""
							switch td := got.Content.(type) {
							case *lime.TextDocument:
								txt = string(*td)
							case lime.TextDocument: // the in-process transport hands over the value itself
								txt = string(td)
							}
							if txt != sid {
								violate("C17/builder/foreign-session-in-echo", fmt.Sprintf("%s (session %s): the echo of %s names session %v", name, sid, m.ID, got.Content))
							}
						}
					case <-octx.Done():
						violate("C17/builder/no-answer", fmt.Sprintf("%s (session %s): no echo of %s within 20 s", name, sid, m.ID))
						oc()
						return
					}
				}
				oc()
			}
		}(i, cc, ses.ID)
	}
	wg.Wait()
	for _, b := range bad {
		r.Violate(b.key, b.detail)
	}
	r.Evals++
	r.Count("sessions", n)
	r.Count("reports_checked", int(pings+echoes))
	r.Count("builder_pings", int(pings))
	r.Count("builder_echoes", int(echoes))
	r.Count("builder_failed_replies", int(failReplies))
	r.Count("builder_catch_all_hits", int(atomic.LoadInt64(&catchAll)))
	r.Fingerprints = append(r.Fingerprints, fmt.Sprintf("builder|%d|%d", n, c.Seed%100000))
}

type c17report struct {
	Tok      string   `json:"tok"`
	Kind     string   `json:"kind"`
	SID      string   `json:"sid"`
	SIDok    bool     `json:"sid_ok"`
	Remote   string   `json:"remote"`
	RemoteOk bool     `json:"remote_ok"`
	Local    string   `json:"local"`
	LocalOk  bool     `json:"local_ok"`
	PP       string   `json:"pp"`
	From     string   `json:"from"`
	Meta     []string `json:"meta"`
}

func (p c17) Run(c core.Case) core.Result {
	var r core.Result
	r.Verdict = core.Held
	if c.Engine == "builder" {
		p.builderEngine(&r, c)
		return r
	}
	n := c.Int("n", 4)
	per := c.Int("per", 20)
	rng := core.NewRng(c.Seed)

	var inHandlers, overlapMax int64
	enter := func() {
		v := atomic.AddInt64(&inHandlers, 1)
		for {
			m := atomic.LoadInt64(&overlapMax)
			if v <= m || atomic.CompareAndSwapInt64(&overlapMax, m, v) {
				break
			}
		}
		for k := 0; k < 30; k++ {
			runtime.Gosched()
		}
	}
	leave := func() { atomic.AddInt64(&inHandlers, -1) }

	var smu sync.Mutex
	serverChans := map[string]*lime.ServerChannel{} // by session id
	registered := map[string]string{}               // session id -> assigned node
	mkReport := func(ctx context.Context, kind, tok string, env lime.Envelope) c17report {
		rep := c17report{Tok: tok, Kind: kind, PP: env.PP.String(), From: env.From.String()}
		rep.SID, rep.SIDok = lime.ContextSessionID(ctx)
		rn, ok := lime.ContextSessionRemoteNode(ctx)
		rep.Remote, rep.RemoteOk = rn.String(), ok
		ln, ok := lime.ContextSessionLocalNode(ctx)
		rep.Local, rep.LocalOk = ln.String(), ok
		for k := range env.Metadata {
			rep.Meta = append(rep.Meta, k)
		}
		sort.Strings(rep.Meta)
		return rep
	}
	reply := func(ctx context.Context, s lime.MessageSender, rep c17report) error {
		b, _ := json.Marshal(rep)
		m := &lime.Message{}
		m.ID = "report-" + rep.Tok
		var doc lime.JsonDocument
		_ = json.Unmarshal(b, &doc)
		m.SetContent(&doc)
		sctx, cancel := context.WithTimeout(ctx, 20*time.Second)
		defer cancel()
		return s.SendMessage(sctx, m)
	}
	mux := &lime.EnvelopeMux{}
	mux.MessageHandlerFunc(nil, func(ctx context.Context, m *lime.Message, s lime.Sender) error {
		enter()
		defer leave()
		_ = reply(ctx, s, mkReport(ctx, "message", m.ID, m.Envelope))
		return nil
	})
	mux.RequestCommandHandlerFunc(nil, func(ctx context.Context, m *lime.RequestCommand, s lime.Sender) error {
		enter()
		defer leave()
		_ = reply(ctx, s, mkReport(ctx, "request", m.ID, m.Envelope))
		return nil
	})
	mux.ResponseCommandHandlerFunc(nil, func(ctx context.Context, m *lime.ResponseCommand, s lime.Sender) error {
		enter()
		defer leave()
		_ = reply(ctx, s, mkReport(ctx, "response", m.ID, m.Envelope))
		return nil
	})
	mux.NotificationHandlerFunc(nil, func(ctx context.Context, m *lime.Notification) error {
		enter()
		defer leave()
		rep := mkReport(ctx, "notification", m.ID, m.Envelope)
		smu.Lock()
		sc := serverChans[rep.SID]
		smu.Unlock()
		if sc != nil {
			_ = reply(ctx, sc, rep)
		}
		return nil
	})
	cfg := rig.DefaultServerConfig()
	cfg.ChannelBufferSize = 8
	cfg.Register = func(ctx context.Context, cand lime.Node, sc *lime.ServerChannel) (lime.Node, error) {
		// adversarially similar addresses: u1, u11, u111 ... with instances that are prefixes of each other
		idx := strings.TrimPrefix(cand.Name, "client")
		node := lime.Node{Identity: lime.Identity{Name: "u" + strings.Repeat("1", 1+len(idx)%3) + idx, Domain: "verif.local"}, Instance: "i" + idx}
		smu.Lock()
		registered[sc.ID()] = node.String()
		smu.Unlock()
		return node, nil
	}
	cfg.Established = func(id string, sc *lime.ServerChannel) {
		smu.Lock()
		serverChans[id] = sc
		smu.Unlock()
	}
	flavours := []string{rig.InProc, rig.TCP, rig.WS}
	sr, err := rig.StartServer(cfg, mux, flavours, 0)
	if err != nil {
		r.Verdict = core.Inconclusive
		r.Note = err.Error()
		return r
	}
	defer sr.Close(20 * time.Second)

	// intruders: no session, JSON that fails to decode after filling fields
	stopIntr := make(chan struct{})
	var intrWG sync.WaitGroup
	var intrCount int64
	poison := []string{
		`{"id":5,"pp":"root@intruder.example/door","metadata":{"#role":"admin"},"from":"evil@x/y"}`,
		`{"pp":"root@intruder.example/door","metadata":{"#role":"admin"},"method":"get","uri":"/i","event":"zzz"}`,
		`{"from":"evil@x/y","pp":"p@q/r","metadata":{"k":"v"},"state":"bogus"}`,
		`{"metadata":{"#role":"admin"},"pp":"root@intruder.example/door","content":"x","type":5}`,
	}
	for i := 0; i < 2; i++ {
		intrWG.Add(1)
		go func(i int) {
			defer intrWG.Done()
			for k := 0; ; k++ {
				select {
				case <-stopIntr:
					return
				default:
				}
				if i == 0 {
					if conn, err := net.DialTimeout("tcp", sr.Addr(rig.TCP).String(), 2*time.Second); err == nil {
						_, _ = conn.Write([]byte(poison[k%len(poison)] + "\n"))
						atomic.AddInt64(&intrCount, 1)
						_ = conn.SetReadDeadline(time.Now().Add(20 * time.Millisecond))
						buf := make([]byte, 256)
						_, _ = conn.Read(buf)
						conn.Close()
					}
				} else {
					d := websocket.Dialer{Subprotocols: []string{"lime"}, HandshakeTimeout: 2 * time.Second}
					if conn, _, err := d.Dial("ws://"+sr.Addr(rig.WS).String(), nil); err == nil {
						_ = conn.WriteMessage(websocket.TextMessage, []byte(poison[k%len(poison)]))
						atomic.AddInt64(&intrCount, 1)
						_ = conn.SetReadDeadline(time.Now().Add(20 * time.Millisecond))
						_, _, _ = conn.ReadMessage()
						conn.Close()
					}
				}
				time.Sleep(time.Millisecond)
			}
		}(i)
	}

	type clientState struct {
		idx     int
		flavour string
		cc      *lime.ClientChannel
		sid     string
		local   string
		remote  string
		sent    map[string]string // tok -> kind
		reports []c17report
		foreign []string
		mu      sync.Mutex
	}
	clients := make([]*clientState, n)
	var wg sync.WaitGroup
	var estErr error
	var emu sync.Mutex
	ctx, cancel := context.WithTimeout(context.Background(), 200*time.Second)
	defer cancel()
	for i := 0; i < n; i++ {
		wg.Add(1)
		go func(i int) {
			defer wg.Done()
			f := flavours[i%len(flavours)]
			cc, ses, err := sr.EstablishClient(ctx, f, 8, 8, lime.Identity{Name: fmt.Sprintf("client%d", i), Domain: "verif.local"}, "home")
			if err != nil {
				emu.Lock()
				estErr = err
				emu.Unlock()
				return
			}
			clients[i] = &clientState{idx: i, flavour: f, cc: cc, sid: cc.ID(), local: cc.LocalNode().String(), remote: cc.RemoteNode().String(), sent: map[string]string{}}
			_ = ses
		}(i)
	}
	wg.Wait()
	if estErr != nil {
		close(stopIntr)
		intrWG.Wait()
		r.Verdict = core.Inconclusive
		r.Note = "establish: " + estErr.Error()
		return r
	}
	r.Count("sessions", n)
	// distinct ids, matching the server's view
	seen := map[string]int{}
	for _, cl := range clients {
		if prev, ok := seen[cl.sid]; ok {
			r.Violate("C17/duplicate-session-id", fmt.Sprintf("clients %d and %d were both announced session id %s", prev, cl.idx, cl.sid))
		}
		seen[cl.sid] = cl.idx
		smu.Lock()
		reg, ok := registered[cl.sid]
		_, est := serverChans[cl.sid]
		smu.Unlock()
		if !ok || reg != cl.local {
			r.Violate("C17/announced-node", fmt.Sprintf("client %d: established envelope announced local node %q, Register assigned %q to session %s", cl.idx, cl.local, reg, cl.sid))
		}
		if !est {
			// the Established callback may lag the envelope slightly
			time.Sleep(20 * time.Millisecond)
			smu.Lock()
			_, est = serverChans[cl.sid]
			smu.Unlock()
			if !est {
				r.Violate("C17/session-id-unknown-to-server", fmt.Sprintf("client %d was announced session id %s, which the server's Established callback never reported", cl.idx, cl.sid))
			}
		}
	}
	// consumers
	var consumers sync.WaitGroup
	for _, cl := range clients {
		cl := cl
		consumers.Add(1)
		go func() {
			defer consumers.Done()
			for {
				select {
				case m, ok := <-cl.cc.MsgChan():
					if !ok {
						return
					}
					var rep c17report
					if jd, ok := m.Content.(*lime.JsonDocument); ok {
						b, _ := json.Marshal(jd)
						_ = json.Unmarshal(b, &rep)
					}
					cl.mu.Lock()
					cl.reports = append(cl.reports, rep)
					if m.PP != (lime.Node{}) || len(m.Metadata) > 0 {
						cl.foreign = append(cl.foreign, fmt.Sprintf("report %s arrived with pp=%q metadata=%v", m.ID, m.PP, m.Metadata))
					}
					cl.mu.Unlock()
				case x, ok := <-cl.cc.NotChan():
					if ok {
						cl.mu.Lock()
						cl.foreign = append(cl.foreign, "unexpected notification "+x.ID)
						cl.mu.Unlock()
					}
				case x, ok := <-cl.cc.ReqCmdChan():
					if ok {
						cl.mu.Lock()
						cl.foreign = append(cl.foreign, "unexpected request "+x.ID)
						cl.mu.Unlock()
					}
				case x, ok := <-cl.cc.RespCmdChan():
					if ok {
						cl.mu.Lock()
						cl.foreign = append(cl.foreign, "unexpected response "+x.ID)
						cl.mu.Unlock()
					}
				case <-cl.cc.RcvDone():
					return
				}
			}
		}()
	}
	// senders
	for _, cl := range clients {
		cl := cl
		seed := rng.Uint64()
		wg.Add(1)
		go func() {
			defer wg.Done()
			lr := core.NewRng(seed)
			for k := 0; k < per; k++ {
				kind := k % 4
				if k >= 4 {
					kind = lr.Intn(4)
				}
				tok := fmt.Sprintf("c%d.%s.%d", cl.idx, c04kinds[kind], k)
				e, _ := c04build(kind, tok, 12)
				cl.mu.Lock()
				cl.sent[tok] = c04kinds[kind]
				cl.mu.Unlock()
				sctx, scancel := context.WithTimeout(ctx, 30*time.Second)
				if err := c04send(sctx, cl.cc, e); err != nil {
					cl.mu.Lock()
					delete(cl.sent, tok)
					cl.mu.Unlock()
				}
				scancel()
			}
		}()
	}
	wg.Wait()
	// wait for the reports
	deadline := time.Now().Add(30 * time.Second)
	for time.Now().Before(deadline) {
		missing := 0
		for _, cl := range clients {
			cl.mu.Lock()
			missing += len(cl.sent) - len(cl.reports)
			cl.mu.Unlock()
		}
		if missing <= 0 {
			break
		}
		time.Sleep(5 * time.Millisecond)
	}
	time.Sleep(20 * time.Millisecond)
	// the intruders must have had their say while the sessions were alive
	for w := 0; w < 400 && atomic.LoadInt64(&intrCount) < 40; w++ {
		time.Sleep(5 * time.Millisecond)
	}
	close(stopIntr)
	intrWG.Wait()
	kinds := map[string]bool{}
	for _, cl := range clients {
		cl.mu.Lock()
		got := map[string]int{}
		for _, rep := range cl.reports {
			got[rep.Tok]++
			kinds[rep.Kind] = true
			r.Count("reports_checked", 1)
			if _, mine := cl.sent[rep.Tok]; !mine {
				r.Violate("C17/reply-crossed-sessions", fmt.Sprintf("client %d (%s, session %s) received the report for token %s, which it never sent", cl.idx, cl.flavour, cl.sid, rep.Tok))
				continue
			}
			if !rep.SIDok || rep.SID != cl.sid {
				r.Violate("C17/context-session-id/"+rep.Kind, fmt.Sprintf("client %d session %s: the %s handler for %s saw ContextSessionID=%q (present=%v)", cl.idx, cl.sid, rep.Kind, rep.Tok, rep.SID, rep.SIDok))
			}
			if !rep.RemoteOk || rep.Remote != cl.local {
				r.Violate("C17/context-remote-node/"+rep.Kind, fmt.Sprintf("client %d (announced node %s): the %s handler for %s saw ContextSessionRemoteNode=%q (present=%v)", cl.idx, cl.local, rep.Kind, rep.Tok, rep.Remote, rep.RemoteOk))
			}
			if !rep.LocalOk || rep.Local != cl.remote {
				r.Violate("C17/context-local-node/"+rep.Kind, fmt.Sprintf("client %d: the %s handler for %s saw ContextSessionLocalNode=%q (present=%v), the client's remote node is %q", cl.idx, rep.Kind, rep.Tok, rep.Local, rep.LocalOk, cl.remote))
			}
			if rep.PP != "" || len(rep.Meta) > 0 || rep.From != "" {
				r.Violate("C17/foreign-fields/"+rep.Kind, fmt.Sprintf("client %d sent %s without pp/metadata/from, the server handler saw pp=%q metadata=%v from=%q", cl.idx, rep.Tok, rep.PP, rep.Meta, rep.From))
			}
			if rep.Kind != cl.sent[rep.Tok] {
				r.Violate("C17/kind-changed", fmt.Sprintf("client %d sent %s as %s, the server handled it as %s", cl.idx, rep.Tok, cl.sent[rep.Tok], rep.Kind))
			}
		}
		for tok := range cl.sent {
			if got[tok] == 0 {
				if core.CanaryWorstMS() > 1500 {
					r.Verdict = core.Inconclusive
					r.Note = "missing report under starvation"
				} else {
					r.Violate("C17/report-missing", fmt.Sprintf("client %d (%s) never received the report for its %s (it may have been delivered to another session)", cl.idx, cl.flavour, tok))
				}
			}
			if got[tok] > 1 {
				r.Violate("C17/report-duplicated", fmt.Sprintf("client %d received %d reports for %s", cl.idx, got[tok], tok))
			}
		}
		for _, f := range cl.foreign {
			r.Violate("C17/foreign-envelope", fmt.Sprintf("client %d (%s): %s", cl.idx, cl.flavour, f))
		}
		cl.mu.Unlock()
	}
	r.Count("kinds_reported", len(kinds))
	r.Count("handler_overlap_max", int(atomic.LoadInt64(&overlapMax)))
	r.Count("intruder_inputs", int(atomic.LoadInt64(&intrCount)))
	r.Evals = 1
	r.NonTrivial = atomic.LoadInt64(&overlapMax) >= 2
	r.Fingerprint = fmt.Sprintf("n=%d|seed=%d", n, c.Seed%100000)
	r.Sample = map[string]interface{}{"clients": n, "envelopes_per_client": per, "transports": flavours, "max_sessions_inside_handlers_at_once": overlapMax, "example_client": map[string]string{"session": clients[0].sid, "local": clients[0].local, "remote": clients[0].remote}}
	// teardown
	var fwg sync.WaitGroup
	for _, cl := range clients {
		cl := cl
		fwg.Add(1)
		go func() {
			defer fwg.Done()
			fctx, fc := context.WithTimeout(context.Background(), 15*time.Second)
			_, _ = cl.cc.FinishSession(fctx)
			fc()
			_ = cl.cc.Close()
		}()
	}
	fwg.Wait()
	return r
}
