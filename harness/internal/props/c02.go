package props

import (
	"bytes"
	"context"
	"encoding/json"
	"fmt"
	"net"
	"os"
	"sort"
	"strings"
	"time"

	lime "github.com/takenet/lime-go"

	"verif/harness/internal/core"
	"verif/harness/internal/faultconn"
	"verif/harness/internal/gen"
	"verif/harness/internal/rig"
)

// C02 — Decoding untrusted bytes never crashes and is stable under re-encoding.
type c02 struct{}

func init() { core.Register(c02{}) }

func (c02) ID() string                  { return "C02" }
func (c02) Level() string               { return "exploration" }
func (c02) ChildParallel() int          { return 1 }
func (c02) Exhaustive(tier string) bool { return false }
func (c02) Rule() string {
	return "Base corpus: 60 encodings from the C01 generator (12 per kind, chosen to cover every document kind) plus hand-written protocol examples. Inputs: (a) every single-point structural mutation at every JSON node (delete, null, each wrong JSON type, alien sibling key, swap with every other sub-tree) - exhaustive; double-point mutations: seeded sample (quick) / larger sample (thorough); (b) truncation at every byte offset, concatenations with and without separator; (c) seeded byte-level mutator (bit flips, splices, repeats, dictionary of lime keywords and separators inserted into strings). " +
		"Every input goes to the five typed decoders, to a real tcpTransport.Receive (hook constructor), and its document sub-values to UnmarshalDocument under every registered media type. Oracle: recover() around each decode (panic = violation; a panic on a library goroutine kills the child, which the parent attributes to the input logged before the call); whatever is accepted must Marshal, decode again and be Eq (normalised equality), also through Send->Receive on the transport. " +
		"Endpoint survival: a real Server on TCP loopback is sent hostile inputs at each handshake stage and after establishment and must afterwards complete a fresh handshake. " +
		"Non-trivial = input that is valid JSON but not the original encoding, or was accepted; distinct = (mutation operator, JSON path class, decoder, outcome class)."
}
func (c02) Assumptions() []string {
	return []string{"encoding/json trusted", "input size bounded at 64 KiB (deep-nesting stack exhaustion is outside the explored bound)", "equality normalisation as in C01"}
}
func (c02) Floors(tier string) map[string]int {
	return map[string]int{"inputs": 20000, "decodes": 100000, "accepted": 2000, "rejected": 10000, "reencode_checks": 2000, "transport_receives": 5000, "endpoint_inputs": 30, "document_decodes": 5000}
}

func (c02) Plan(tier string, seed uint64) []core.Case {
	var cases []core.Case
	nbase := 70
	for i := 0; i < nbase; i += 5 {
		cases = append(cases, core.Case{ID: fmt.Sprintf("C02/single/%02d", i), Engine: "single", Seed: 7, P: map[string]interface{}{"lo": i, "hi": i + 5}, TimeoutS: 600})
	}
	nd := 10000
	nb := 20000
	if tier == "thorough" {
		nd = 400000
		nb = 400000
	}
	for i := 0; i < 16; i++ {
		cases = append(cases, core.Case{ID: fmt.Sprintf("C02/double/%02d", i), Engine: "double", Seed: core.Derive(seed, 3, uint64(i)).Uint64(), P: map[string]interface{}{"n": nd / 16}, TimeoutS: 900})
		cases = append(cases, core.Case{ID: fmt.Sprintf("C02/bytes/%02d", i), Engine: "bytes", Seed: core.Derive(seed, 4, uint64(i)).Uint64(), P: map[string]interface{}{"n": nb / 16}, TimeoutS: 900})
	}
	for i := 0; i < nbase; i += 10 {
		cases = append(cases, core.Case{ID: fmt.Sprintf("C02/trunc/%02d", i), Engine: "trunc", Seed: 7, P: map[string]interface{}{"lo": i, "hi": i + 10}, TimeoutS: 600})
	}
	cases = append(cases, core.Case{ID: "C02/handwritten", Engine: "handwritten", Seed: 7, TimeoutS: 300})
	ne := 2
	if tier == "thorough" {
		ne = 8
	}
	for i := 0; i < ne; i++ {
		cases = append(cases, core.Case{ID: fmt.Sprintf("C02/endpoint/%d", i), Engine: "endpoint", Seed: core.Derive(seed, 5, uint64(i)).Uint64(), P: map[string]interface{}{"n": 24}, TimeoutS: 300})
	}
	return cases
}

// c02corpus is deterministic (independent of VERIF_SEED).
func c02corpus() [][]byte {
	var out [][]byte
	g := gen.New(4242)
	seen := map[string]int{}
	for k := 0; k < gen.NKinds; k++ {
		n := 0
		for tries := 0; n < 12 && tries < 4000; tries++ {
			mask := g.R.Intn(1 << gen.MaskBits(k))
			v, path := g.Envelope(k, mask)
			b, err := json.Marshal(v)
			if err != nil || len(b) > 3000 {
				continue
			}
			// prefer unseen document paths
			if seen[path] > 0 && tries < 3000 && (k == gen.KMessage || k == gen.KRequest || k == gen.KResponse) && g.R.Chance(3, 4) {
				continue
			}
			seen[path]++
			out = append(out, b)
			n++
		}
	}
	out = append(out, c02handwritten()...)
	return out
}

func c02handwritten() [][]byte {
	l := []string{
		`{"id":"1","from":"a@b/c","to":"d@e","type":"application/vnd.lime.container+json","content":{"type":"text/plain","value":"x"}}`,
		`{"id":"2","type":"application/vnd.lime.collection+json","content":{"total":2,"itemType":"application/vnd.lime.container+json","items":[{"type":"text/plain","value":"a"},{"type":"application/json","value":{"k":1}}]}}`,
		`{"id":"3","method":"get","uri":"/ping"}`,
		`{"id":"3","method":"get","status":"success","type":"application/vnd.lime.ping+json","resource":{}}`,
		`{"id":"4","method":"set","status":"failure","reason":{"code":1,"description":"d"}}`,
		`{"id":"5","event":"failed","reason":{"code":2}}`,
		`{"state":"new"}`,
		`{"id":"s","from":"srv@d/i","state":"negotiating","encryptionOptions":["none","tls"],"compressionOptions":["none"]}`,
		`{"id":"s","state":"authenticating","scheme":"plain","authentication":{"password":"cGFzcw=="},"from":"u@d/i"}`,
		`{"id":"s","state":"failed","reason":{"code":13,"description":"x"}}`,
	}
	var out [][]byte
	for _, s := range l {
		out = append(out, []byte(s))
	}
	return out
}

var c02decoders = []string{"message", "notification", "request", "response", "session"}

type c02ctx struct {
	r   *core.Result
	fps map[string]bool
}

func safeDecode(kind string, b []byte) (v interface{}, err error, panicked interface{}) {
	defer func() {
		if p := recover(); p != nil {
			panicked = p
		}
	}()
	v, err = c01typedDecode(kind, b)
	return
}

func safeMarshal(v interface{}) (b []byte, err error, panicked interface{}) {
	defer func() {
		if p := recover(); p != nil {
			panicked = p
		}
	}()
	b, err = json.Marshal(v)
	return
}

func panicKey(p interface{}) string {
	s := fmt.Sprint(p)
	s = strings.Map(func(r rune) rune {
		if r >= '0' && r <= '9' {
			return '#'
		}
		if r == ' ' || r == '/' {
			return '-'
		}
		return r
	}, s)
	if len(s) > 60 {
		s = s[:60]
	}
	return s
}

// feed runs one input through all decoders and the transport path.
func (x *c02ctx) feed(op, pathClass string, in []byte, transport bool) {
	r := x.r
	r.Evals++
	r.Count("inputs", 1)
	if len(in) > 64*1024 {
		in = in[:64*1024]
	}
	for _, kind := range c02decoders {
		r.Count("decodes", 1)
		v, err, p := safeDecode(kind, in)
		outcome := "rejected"
		if p != nil {
			r.Violate("C02/panic/typed-"+kind+"/"+panicKey(p), fmt.Sprintf("decoding into %s panicked: %v; input (%s at %s): %s", kind, p, op, pathClass, clip(in)))
			outcome = "panic"
		} else if err == nil {
			outcome = "accepted"
			r.Count("accepted", 1)
			x.stability("typed-"+kind, kind, v, in, op, pathClass)
		} else {
			r.Count("rejected", 1)
		}
		x.fps[op+"|"+pathClass+"|"+kind+"|"+outcome] = true
	}
	if transport {
		x.viaTransport(op, pathClass, in)
	}
}

// errClass turns an error into a stable, site-specific key fragment (addresses and digits masked).
func errClass(err error) string {
	s := err.Error()
	if i := strings.LastIndex(s, ": "); i >= 0 && i+2 < len(s) {
		// keep the innermost cause plus the type it was raised for, when present
		inner := s[i+2:]
		if j := strings.Index(s, "for type "); j >= 0 {
			t := s[j+9:]
			if k := strings.IndexAny(t, ": "); k >= 0 {
				t = t[:k]
			}
			inner = t + ":" + inner
		}
		s = inner
	}
	s = strings.Map(func(r rune) rune {
		switch {
		case r >= '0' && r <= '9':
			return '#'
		case r == ' ' || r == '/' || r == '\'' || r == '"':
			return '-'
		}
		return r
	}, s)
	if i := strings.Index(s, "#x"); i >= 0 {
		s = s[:i]
	}
	if len(s) > 70 {
		s = s[:70]
	}
	return s
}

func clip(b []byte) string {
	if len(b) > 700 {
		return string(b[:700]) + "…"
	}
	return string(b)
}

// stability: what was accepted must encode, decode again and be equal.
func (x *c02ctx) stability(dec, kind string, v interface{}, in []byte, op, pathClass string) {
	r := x.r
	r.Count("reencode_checks", 1)
	b, err, p := safeMarshal(v)
	if p != nil {
		r.Violate("C02/panic/marshal-"+kind+"/"+panicKey(p), fmt.Sprintf("re-encoding an accepted %s panicked: %v; input: %s", kind, p, clip(in)))
		return
	}
	if err != nil {
		r.Violate("C02/unstable/"+dec+"/marshal-error/"+errClass(err), fmt.Sprintf("%s accepted the input but the result cannot be encoded again: %v; input (%s at %s): %s", dec, err, op, pathClass, clip(in)))
		return
	}
	v2, err, p := safeDecode(kind, b)
	if p != nil {
		r.Violate("C02/panic/typed-"+kind+"/"+panicKey(p), fmt.Sprintf("decoding the re-encoding panicked: %v; re-encoding %s", p, clip(b)))
		return
	}
	if err != nil {
		r.Violate("C02/unstable/"+dec+"/redecode-error/"+errClass(err), fmt.Sprintf("%s accepted the input, re-encoded it as %s, and rejects that: %v; input (%s at %s): %s", dec, clip(b), err, op, pathClass, clip(in)))
		return
	}
	if ok, where := gen.Eq(v, v2); !ok {
		r.Violate("C02/unstable/"+dec+"/not-equal/"+fieldOf(where), fmt.Sprintf("%s: decode(encode(decode(input))) differs from decode(input) at %s; input (%s at %s): %s; re-encoding: %s", dec, where, op, pathClass, clip(in), clip(b)))
	}
}

func (x *c02ctx) viaTransport(op, pathClass string, in []byte) {
	r := x.r
	// a newline inside the input would split it into several stream elements: the transport sees whatever a peer sends
	tp := rig.NewTransportPair(faultconn.Options{}, nil, nil)
	tp.CA.SetTap(false)
	defer func() {
		_ = tp.CA.Close()
		_ = tp.B.Close()
	}()
	_, _ = tp.CA.Write(append(append([]byte{}, in...), '\n'))
	_ = tp.CA.CloseWrite()
	r.Count("transport_receives", 1)
	var env interface{}
	var err error
	var pan interface{}
	func() {
		defer func() {
			if p := recover(); p != nil {
				pan = p
			}
		}()
		ctx, cancel := context.WithTimeout(context.Background(), 10*time.Second)
		defer cancel()
		env, err = tp.B.Receive(ctx)
	}()
	if pan != nil {
		r.Violate("C02/panic/transport-receive/"+panicKey(pan), fmt.Sprintf("tcp transport Receive panicked: %v; input (%s at %s): %s", pan, op, pathClass, clip(in)))
		x.fps[op+"|"+pathClass+"|transport|panic"] = true
		return
	}
	if err != nil {
		x.fps[op+"|"+pathClass+"|transport|rejected"] = true
		return
	}
	x.fps[op+"|"+pathClass+"|transport|accepted"] = true
	r.Count("transport_accepted", 1)
	// forward: Send on a second transport, Receive at its far end
	tp2 := rig.NewTransportPair(faultconn.Options{}, nil, nil)
	tp2.CA.SetTap(false)
	defer func() {
		tp2.Close()
	}()
	var serr error
	func() {
		defer func() {
			if p := recover(); p != nil {
				pan = p
			}
		}()
		ctx, cancel := context.WithTimeout(context.Background(), 10*time.Second)
		defer cancel()
		serr = sendAny(ctx, tp2.A, env)
	}()
	if pan != nil {
		r.Violate("C02/panic/transport-send/"+panicKey(pan), fmt.Sprintf("forwarding an accepted envelope panicked in Send: %v; input: %s", pan, clip(in)))
		return
	}
	if serr != nil {
		r.Violate("C02/unstable/transport/send-error/"+errClass(serr), fmt.Sprintf("the transport accepted the input as %s but cannot send it on: %v; input (%s at %s): %s", gen.KindOf(env), serr, op, pathClass, clip(in)))
		return
	}
	var env2 interface{}
	func() {
		defer func() {
			if p := recover(); p != nil {
				pan = p
			}
		}()
		ctx, cancel := context.WithTimeout(context.Background(), 10*time.Second)
		defer cancel()
		env2, err = tp2.B.Receive(ctx)
	}()
	if pan != nil {
		r.Violate("C02/panic/transport-receive/"+panicKey(pan), fmt.Sprintf("receiving the forwarded envelope panicked: %v; input: %s", pan, clip(in)))
		return
	}
	if err != nil {
		r.Violate("C02/unstable/transport/redecode-error/"+errClass(err), fmt.Sprintf("the transport accepted the input as %s, forwarded it, and the next hop rejects it: %v; input (%s at %s): %s", gen.KindOf(env), err, op, pathClass, clip(in)))
		return
	}
	if gen.KindOf(env) != gen.KindOf(env2) {
		r.Violate("C02/unstable/transport/kind", fmt.Sprintf("accepted as %s, forwarded copy decodes as %s; input: %s", gen.KindOf(env), gen.KindOf(env2), clip(in)))
		return
	}
	if ok, where := gen.Eq(env, env2); !ok {
		r.Violate("C02/unstable/transport/not-equal/"+fieldOf(where), fmt.Sprintf("forwarded copy differs at %s; input (%s at %s): %s", where, op, pathClass, clip(in)))
	}
}

// documents: feed document sub-values to UnmarshalDocument under every registered type.
var c02docTypes = []string{"text/plain", "application/json", "application/vnd.lime.container+json", "application/vnd.lime.collection+json", "application/vnd.lime.ping+json",
	"application/vnd.lime.account+json", "application/vnd.lime.contact+json", "application/vnd.lime.delegation+json", "application/vnd.lime.presence+json", "application/vnd.lime.receipt+json", "application/x-verif.doc+json", "x/unknown+json", "x/unknown"}

func (x *c02ctx) documents(op string, raw json.RawMessage) {
	r := x.r
	for _, ts := range c02docTypes {
		mt, err := lime.ParseMediaType(ts)
		if err != nil {
			continue
		}
		r.Count("document_decodes", 1)
		var d lime.Document
		var derr error
		var pan interface{}
		func() {
			defer func() {
				if p := recover(); p != nil {
					pan = p
				}
			}()
			rm := raw
			d, derr = lime.UnmarshalDocument(&rm, mt)
		}()
		if pan != nil {
			r.Violate("C02/panic/document-"+mt.Subtype+"/"+panicKey(pan), fmt.Sprintf("UnmarshalDocument(%s) panicked: %v; value (%s): %s", ts, pan, op, clip(raw)))
			continue
		}
		if derr != nil {
			continue
		}
		// stability of accepted documents
		b, merr, pan := safeMarshal(d)
		if pan != nil {
			r.Violate("C02/panic/document-marshal/"+panicKey(pan), fmt.Sprintf("encoding an accepted %s document panicked: %v; value: %s", ts, pan, clip(raw)))
			continue
		}
		if merr != nil {
			r.Violate("C02/unstable/document-"+mt.Subtype+"/marshal-error/"+errClass(merr), fmt.Sprintf("UnmarshalDocument(%s) accepted %s but the result cannot be encoded: %v", ts, clip(raw), merr))
			continue
		}
		rm2 := json.RawMessage(b)
		var d2 lime.Document
		func() {
			defer func() {
				if p := recover(); p != nil {
					pan = p
				}
			}()
			d2, derr = lime.UnmarshalDocument(&rm2, mt)
		}()
		if pan != nil {
			r.Violate("C02/panic/document-"+mt.Subtype+"/"+panicKey(pan), fmt.Sprintf("UnmarshalDocument(%s) panicked on a re-encoding: %v; %s", ts, pan, clip(b)))
			continue
		}
		if derr != nil {
			r.Violate("C02/unstable/document-"+mt.Subtype+"/redecode-error/"+errClass(derr), fmt.Sprintf("UnmarshalDocument(%s) accepted %s, re-encoded as %s, rejects that: %v", ts, clip(raw), clip(b), derr))
			continue
		}
		if ok, where := gen.Eq(d, d2); !ok {
			r.Violate("C02/unstable/document-"+mt.Subtype+"/not-equal", fmt.Sprintf("document (%s) differs after re-encoding at %s; value %s; re-encoding %s", ts, where, clip(raw), clip(b)))
		}
	}
}

// ---- structural mutation over generic JSON trees -------------------------------------------------

type jpath []interface{} // string keys and int indices

func decodeTree(b []byte) (interface{}, error) {
	d := json.NewDecoder(bytes.NewReader(b))
	d.UseNumber()
	var v interface{}
	err := d.Decode(&v)
	return v, err
}

func cloneTree(v interface{}) interface{} {
	switch x := v.(type) {
	case map[string]interface{}:
		m := make(map[string]interface{}, len(x))
		for k, e := range x {
			m[k] = cloneTree(e)
		}
		return m
	case []interface{}:
		l := make([]interface{}, len(x))
		for i, e := range x {
			l[i] = cloneTree(e)
		}
		return l
	}
	return v
}

func allPaths(v interface{}, prefix jpath, out *[]jpath) {
	switch x := v.(type) {
	case map[string]interface{}:
		keys := make([]string, 0, len(x))
		for k := range x {
			keys = append(keys, k)
		}
		sort.Strings(keys)
		for _, k := range keys {
			p := append(append(jpath{}, prefix...), k)
			*out = append(*out, p)
			allPaths(x[k], p, out)
		}
	case []interface{}:
		for i := range x {
			p := append(append(jpath{}, prefix...), i)
			*out = append(*out, p)
			allPaths(x[i], p, out)
		}
	}
}

func getAt(v interface{}, p jpath) (interface{}, bool) {
	for _, s := range p {
		switch k := s.(type) {
		case string:
			m, ok := v.(map[string]interface{})
			if !ok {
				return nil, false
			}
			v, ok = m[k]
			if !ok {
				return nil, false
			}
		case int:
			l, ok := v.([]interface{})
			if !ok || k >= len(l) {
				return nil, false
			}
			v = l[k]
		}
	}
	return v, true
}

// setAt returns a new root with the node at p replaced (del=true removes it).
func setAt(root interface{}, p jpath, val interface{}, del bool) interface{} {
	if len(p) == 0 {
		return val
	}
	switch k := p[0].(type) {
	case string:
		m, ok := root.(map[string]interface{})
		if !ok {
			return root
		}
		if len(p) == 1 {
			if del {
				delete(m, k)
			} else {
				m[k] = val
			}
			return m
		}
		m[k] = setAt(m[k], p[1:], val, del)
		return m
	case int:
		l, ok := root.([]interface{})
		if !ok || k >= len(l) {
			return root
		}
		if len(p) == 1 {
			if del {
				return append(append([]interface{}{}, l[:k]...), l[k+1:]...)
			}
			l[k] = val
			return l
		}
		l[k] = setAt(l[k], p[1:], val, del)
		return l
	}
	return root
}

func pathClass(p jpath) string {
	var parts []string
	for _, s := range p {
		switch k := s.(type) {
		case string:
			parts = append(parts, k)
		case int:
			parts = append(parts, "[]")
		}
	}
	s := strings.Join(parts, ".")
	if len(s) > 60 {
		s = s[:60]
	}
	return s
}

var c02replacements = []struct {
	name string
	v    interface{}
}{
	{"null", nil}, {"true", true}, {"number", json.Number("0")}, {"bignum", json.Number("1e999")}, {"negnum", json.Number("-1")}, {"string", "str"}, {"empty-string", ""},
	{"empty-array", []interface{}{}}, {"empty-object", map[string]interface{}{}}, {"array", []interface{}{json.Number("1"), "x", nil}}, {"object", map[string]interface{}{"a": json.Number("1")}},
	{"slash", "/"}, {"nested-null-array", []interface{}{nil}},
}

type mutation struct {
	op   string
	path jpath
	val  interface{}
	del  bool
	from jpath
}

func singleMutations(root interface{}) []mutation {
	var paths []jpath
	allPaths(root, nil, &paths)
	var out []mutation
	for _, p := range paths {
		out = append(out, mutation{op: "delete", path: p, del: true})
		for _, rp := range c02replacements {
			out = append(out, mutation{op: "type:" + rp.name, path: p, val: rp.v})
		}
		if node, ok := getAt(root, p); ok {
			if _, isObj := node.(map[string]interface{}); isObj {
				out = append(out, mutation{op: "alien", path: append(append(jpath{}, p...), "zzAlien"), val: json.Number("1")})
			}
		}
	}
	out = append(out, mutation{op: "alien", path: jpath{"zzAlien"}, val: "x"})
	return out
}

func swapMutations(root interface{}) []mutation {
	var paths []jpath
	allPaths(root, nil, &paths)
	var out []mutation
	for _, p := range paths {
		for _, q := range paths {
			if pathClass(p) == pathClass(q) && fmt.Sprint(p) == fmt.Sprint(q) {
				continue
			}
			out = append(out, mutation{op: "swap", path: p, from: q})
		}
	}
	return out
}

func applyMutation(root interface{}, m mutation) interface{} {
	t := cloneTree(root)
	if m.op == "swap" {
		src, ok := getAt(root, m.from)
		if !ok {
			return t
		}
		return setAt(t, m.path, cloneTree(src), false)
	}
	return setAt(t, m.path, cloneTree(m.val), m.del)
}

func (p c02) Run(c core.Case) core.Result {
	gen.Register()
	var r core.Result
	r.Verdict = core.Held
	x := &c02ctx{r: &r, fps: map[string]bool{}}
	corpus := c02corpus()
	switch c.Engine {
	case "single":
		for i := c.Int("lo", 0); i < c.Int("hi", 0) && i < len(corpus); i++ {
			root, err := decodeTree(corpus[i])
			if err != nil {
				continue
			}
			// control: the corpus entry itself must be accepted by the transport
			x.feed("identity", "-", corpus[i], true)
			muts := append(singleMutations(root), swapMutations(root)...)
			for mi, m := range muts {
				t := applyMutation(root, m)
				b, err := json.Marshal(t)
				if err != nil {
					continue
				}
				x.feed(m.op, pathClass(m.path), b, m.op != "swap" || mi%4 == 0)
				// document sub-values of the mutated tree
				if m.op != "swap" {
					if mm, ok := t.(map[string]interface{}); ok {
						for _, key := range []string{"content", "resource"} {
							if dv, ok := mm[key]; ok {
								if raw, err := json.Marshal(dv); err == nil {
									x.documents(m.op, raw)
								}
							}
						}
					}
				}
			}
			if r.Sample == nil {
				ex := applyMutation(root, muts[len(muts)/3])
				eb, _ := json.Marshal(ex)
				r.Sample = map[string]interface{}{"base": string(corpus[i]), "mutations_tried": len(muts), "example_operator": muts[len(muts)/3].op, "example_path": pathClass(muts[len(muts)/3].path), "example_input": clip(eb)}
			}
		}
	case "double":
		rng := core.NewRng(c.Seed)
		for n := 0; n < c.Int("n", 100); n++ {
			base := corpus[rng.Intn(len(corpus))]
			root, err := decodeTree(base)
			if err != nil {
				continue
			}
			muts := singleMutations(root)
			m1 := muts[rng.Intn(len(muts))]
			t := applyMutation(root, m1)
			muts2 := singleMutations(t)
			if rng.Chance(1, 4) {
				if sw := swapMutations(t); len(sw) > 0 {
					muts2 = sw
				}
			}
			m2 := muts2[rng.Intn(len(muts2))]
			t2 := applyMutation(t, m2)
			b, err := json.Marshal(t2)
			if err != nil {
				continue
			}
			x.feed("double:"+opClass(m1.op)+"+"+opClass(m2.op), pathClass(m1.path), b, n%3 == 0)
			if n%5 == 0 {
				if mm, ok := t2.(map[string]interface{}); ok {
					for _, key := range []string{"content", "resource"} {
						if dv, ok := mm[key]; ok {
							if raw, err := json.Marshal(dv); err == nil {
								x.documents("double", raw)
							}
						}
					}
				}
			}
		}
	case "trunc":
		for i := c.Int("lo", 0); i < c.Int("hi", 0) && i < len(corpus); i++ {
			b := corpus[i]
			step := 1
			if len(b) > 600 {
				step = 3
			}
			for k := 0; k < len(b); k += step {
				x.feed("truncate", "-", b[:k], k%2 == 0)
			}
			other := corpus[(i*7+3)%len(corpus)]
			x.feed("concat", "-", append(append([]byte{}, b...), other...), true)
			x.feed("concat-nl", "-", append(append(append([]byte{}, b...), '\n'), other...), true)
			x.feed("concat-comma", "-", append(append(append([]byte{}, b...), ','), other...), true)
			x.feed("array-wrap", "-", append(append([]byte("["), b...), ']'), true)
			x.feed("prefix-garbage", "-", append([]byte("}{"), b...), true)
		}
	case "bytes":
		rng := core.NewRng(c.Seed)
		dict := []string{`"state"`, `"new"`, `null`, `"/"`, `"+"`, `"@"`, `"a+b/c"`, `"text+x/plain"`, `"/+json"`, `"application/vnd.lime.container+json"`, `"value"`, `"items"`, `[null]`, `{}`, `"status":""`, `"event":""`, `"uri":"%zz"`, `"uri":""`, `"authentication":{}`, `"scheme":"guest"`, `"type":"/"`, `"itemType":"/"`, `"%"`, `\u0000`, `"\ud800"`, `1e999`, `-0`, `:`, `,`, `"id":1`, `"metadata":{"a":null}`}
		for n := 0; n < c.Int("n", 100); n++ {
			b := append([]byte{}, corpus[rng.Intn(len(corpus))]...)
			nm := 1 + rng.Intn(3)
			op := ""
			for m := 0; m < nm; m++ {
				if len(b) == 0 {
					break
				}
				switch rng.Intn(6) {
				case 0:
					i := rng.Intn(len(b))
					b[i] ^= 1 << uint(rng.Intn(8))
					op += "flip"
				case 1:
					i, j := rng.Intn(len(b)), rng.Intn(len(b))
					if i > j {
						i, j = j, i
					}
					b = append(b[:i], b[j:]...)
					op += "cut"
				case 2:
					i, j := rng.Intn(len(b)), rng.Intn(len(b))
					if i > j {
						i, j = j, i
					}
					if j-i < 200 {
						b = append(b[:j], append(append([]byte{}, b[i:j]...), b[j:]...)...)
					}
					op += "repeat"
				case 3:
					i := rng.Intn(len(b))
					d := dict[rng.Intn(len(dict))]
					b = append(b[:i], append([]byte(d), b[i:]...)...)
					op += "dict"
				case 4:
					// replace a whole string literal by a dictionary string (keeps the JSON valid more often)
					if s, e := findString(b, rng.Intn(len(b))); s >= 0 {
						d := dict[rng.Intn(12)]
						if !strings.HasPrefix(d, `"`) {
							d = `"x"`
						}
						b = append(b[:s], append([]byte(d), b[e:]...)...)
					}
					op += "strsub"
				default:
					// insert a separator character inside a string literal
					if s, e := findString(b, rng.Intn(len(b))); s >= 0 && e-s >= 2 {
						i := s + 1 + rng.Intn(e-s-1)
						ch := []byte{"/+@:%? "[rng.Intn(7)]}
						b = append(b[:i], append(ch, b[i:]...)...)
					}
					op += "sepins"
				}
			}
			x.feed("bytes:"+op, "-", b, n%2 == 0)
		}
	case "handwritten":
		inputs := []string{
			`{"id":"1","type":"application/vnd.lime.container+json","content":{"type":"text/plain"}}`,
			`{"id":"1","type":"application/vnd.lime.container+json","content":{"type":"text/plain","value":null}}`,
			`{"id":"1","type":"application/vnd.lime.collection+json","content":{"itemType":"text/plain","items":[null]}}`,
			`{"id":"1","type":"/","content":"x"}`,
			`{"id":"1","type":"text+x/plain","content":"x"}`,
			`{"id":"1","type":"a+b/c","content":"x"}`,
			`{"id":"1","type":"+json/","content":"x"}`,
			`{"id":"1","method":"get","status":""}`,
			`{"id":"1","method":"get","status":"zzz"}`,
			`{"state":"authenticating","scheme":"transport"}`,
			`{"state":"authenticating","scheme":"plain","authentication":null}`,
			`{"state":"new","authentication":{},"scheme":"zzz"}`,
			`{"id":"1","method":"get","uri":""}`,
			`{"id":"1","method":"get","uri":"//a@b@c//"}`,
			`{"id":"1","method":"get","uri":"lime:opaque"}`,
			`{"id":"1","method":"get","uri":"http://x/y"}`,
			`{"id":"1","event":"accepted","reason":{}}`,
			`{"id":"1","from":"a@b@c/d/e","to":"@","pp":"/","event":"accepted"}`,
			`{"id":"1","content":"x","type":"text/plain","event":"accepted","method":"get","uri":"/x","status":"success","state":"new"}`,
			`null`, `[]`, `"x"`, `1`, `{}`, `{"content":null,"type":"text/plain"}`,
			`{"id":"1","type":"application/json","content":{"a":1e400}}`,
			`{"id":"1","type":"application/json","content":[]}`,
			`{"id":"1","type":"application/json","content":null}`,
			`{"id":"1","type":"text/plain","content":{"a":1}}`,
			`{"id":"1","type":"application/vnd.lime.collection+json","content":{"itemType":"application/vnd.lime.collection+json","items":[{"itemType":"text/plain","items":null}]}}`,
			`{"id":"1","type":"application/vnd.lime.delegation+json","content":{"Messages":[{"type":"/"}],"Commands":[{"status":""}]}}`,
			`{"id":"1","type":"application/vnd.lime.delegation+json","content":{"Messages":[{}]}}`,
		}
		for _, s := range inputs {
			x.feed("handwritten", "-", []byte(s), true)
			var m map[string]json.RawMessage
			if json.Unmarshal([]byte(s), &m) == nil {
				for _, key := range []string{"content", "resource"} {
					if raw, ok := m[key]; ok {
						x.documents("handwritten", raw)
					}
				}
			}
		}
	case "endpoint":
		p.endpoint(x, c)
	}
	for k := range x.fps {
		r.Fingerprints = append(r.Fingerprints, k)
	}
	return r
}

func opClass(op string) string {
	if i := strings.Index(op, ":"); i >= 0 {
		return op[:i]
	}
	return op
}

// findString returns the [start,end) of a JSON string literal around or after position i.
func findString(b []byte, i int) (int, int) {
	s := bytes.IndexByte(b[i:], '"')
	if s < 0 {
		return -1, -1
	}
	s += i
	e := s + 1
	for e < len(b) {
		if b[e] == '\\' {
			e += 2
			continue
		}
		if b[e] == '"' {
			return s, e + 1
		}
		e++
	}
	return -1, -1
}

// endpoint survival: a real Server on TCP loopback gets hostile input at each handshake stage and after establishment.
func (p c02) endpoint(x *c02ctx, c core.Case) {
	r := x.r
	rng := core.NewRng(c.Seed)
	corpus := c02corpus()
	for _, negotiate := range []bool{false, true} {
		cfg := lime.NewServerConfig()
		cfg.Node = lime.Node{Identity: lime.Identity{Name: "postmaster", Domain: "verif.local"}, Instance: "srv"}
		cfg.SchemeOpts = []lime.AuthenticationScheme{lime.AuthenticationSchemeGuest, lime.AuthenticationSchemePlain}
		cfg.EncryptOpts = []lime.SessionEncryption{lime.SessionEncryptionNone}
		if negotiate {
			cfg.EncryptOpts = []lime.SessionEncryption{lime.SessionEncryptionNone, lime.SessionEncryptionTLS}
		}
		cfg.Authenticate = func(ctx context.Context, id lime.Identity, a lime.Authentication) (*lime.AuthenticationResult, error) {
			return lime.MemberAuthenticationResult(), nil
		}
		cfg.Register = func(ctx context.Context, n lime.Node, sc *lime.ServerChannel) (lime.Node, error) {
			return lime.Node{Identity: lime.Identity{Name: n.Name, Domain: "verif.local"}, Instance: "i"}, nil
		}
		mux := &lime.EnvelopeMux{}
		mux.MessageHandlerFunc(nil, func(ctx context.Context, m *lime.Message, s lime.Sender) error { return nil })
		mux.RequestCommandHandlerFunc(nil, func(ctx context.Context, m *lime.RequestCommand, s lime.Sender) error {
			return s.SendResponseCommand(ctx, m.SuccessResponse())
		})
		tl := lime.NewTCPTransportListener(&lime.TCPConfig{TLSConfig: rig.ServerTLS()})
		srv := lime.NewServer(cfg, mux, lime.NewBoundListener(tl, &net.TCPAddr{IP: net.IPv4(127, 0, 0, 1), Port: 0}))
		serveErr := make(chan error, 1)
		go func() { serveErr <- srv.ListenAndServe() }()
		var addr net.Addr
		for i := 0; i < 500 && addr == nil; i++ {
			addr = lime.VerifListenerAddr(tl)
			if addr == nil {
				time.Sleep(10 * time.Millisecond)
			}
		}
		if addr == nil {
			r.Verdict = core.Inconclusive
			r.Note = "server did not start listening"
			return
		}
		stages := []string{"first", "after-new", "after-negotiation", "established"}
		for n := 0; n < c.Int("n", 10); n++ {
			stage := stages[n%len(stages)]
			base := corpus[rng.Intn(len(corpus))]
			var hostile []byte
			switch rng.Intn(5) {
			case 0:
				hostile = base[:rng.Intn(len(base))]
			case 1:
				root, _ := decodeTree(base)
				muts := singleMutations(root)
				hb, _ := json.Marshal(applyMutation(root, muts[rng.Intn(len(muts))]))
				hostile = append(hb, '\n')
			case 2:
				hostile = []byte(`{"id":"1","type":"application/vnd.lime.container+json","content":{"type":"text/plain"}}` + "\n")
			case 3:
				hostile = []byte(`{"state":"new"}` + "\n" + `{"id":"zz","state":"established"}` + "\n")
			default:
				hostile = []byte("\x00\xff{{{]]\n")
			}
			fmt.Fprintf(os.Stderr, "VERIF-INPUT endpoint stage=%s negotiate=%v bytes=%q\n", stage, negotiate, clip(hostile))
			r.Evals++
			r.Count("endpoint_inputs", 1)
			x.fps["endpoint|"+stage+fmt.Sprint(negotiate)] = true
			conn, err := net.DialTimeout("tcp", addr.String(), 5*time.Second)
			if err != nil {
				r.Violate("C02/endpoint/refused", fmt.Sprintf("server no longer accepts connections before input #%d: %v", n, err))
				break
			}
			peer := rig.NewRawPeer(conn)
			func() {
				defer peer.Close()
				if stage == "first" {
					_ = peer.SendRaw(hostile)
					peer.WaitClosed(300 * time.Millisecond)
					return
				}
				_ = peer.SendJSON(map[string]interface{}{"state": "new"})
				m, err := peer.Read(5 * time.Second)
				if err != nil {
					return
				}
				id, _ := m["id"].(string)
				if stage == "after-new" {
					_ = peer.SendRaw(hostile)
					peer.WaitClosed(300 * time.Millisecond)
					return
				}
				if m["state"] == "negotiating" {
					_ = peer.SendJSON(map[string]interface{}{"id": id, "state": "negotiating", "encryption": "none", "compression": "none"})
					if _, err = peer.Read(5 * time.Second); err != nil {
						return
					}
					if m, err = peer.Read(5 * time.Second); err != nil {
						return
					}
				}
				if stage == "after-negotiation" {
					_ = peer.SendRaw(hostile)
					peer.WaitClosed(300 * time.Millisecond)
					return
				}
				_ = peer.SendJSON(map[string]interface{}{"id": id, "state": "authenticating", "from": "u@verif.local/x", "scheme": "guest", "authentication": map[string]interface{}{}})
				m, err = peer.Read(5 * time.Second)
				if err != nil || m["state"] != "established" {
					return
				}
				_ = peer.SendRaw(hostile)
				peer.WaitClosed(300 * time.Millisecond)
			}()
		}
		// the endpoint must still serve a well-behaved client
		ctx, cancel := context.WithTimeout(context.Background(), 15*time.Second)
		t, err := lime.DialTcp(ctx, addr, &lime.TCPConfig{TLSConfig: rig.ClientTLS()})
		if err != nil {
			r.Violate("C02/endpoint/refused", fmt.Sprintf("after the hostile inputs the server refuses connections: %v", err))
		} else {
			cc := lime.NewClientChannel(t, 1)
			ses, err := cc.EstablishSession(ctx, lime.NoneCompressionSelector, lime.NoneEncryptionSelector, lime.Identity{Name: "good", Domain: "verif.local"}, lime.GuestAuthenticator, "inst")
			if err != nil || ses.State != lime.SessionStateEstablished {
				r.Violate("C02/endpoint/no-fresh-handshake", fmt.Sprintf("after the hostile inputs a well-behaved client cannot establish a session: %v %+v", err, ses))
			} else {
				r.Count("endpoint_fresh_handshakes", 1)
				_, _ = cc.FinishSession(ctx)
			}
			_ = cc.Close()
		}
		cancel()
		_ = srv.Close()
		select {
		case <-serveErr:
		case <-time.After(10 * time.Second):
		}
	}
}
