package props

import (
	"context"
	"encoding/json"
	"fmt"
	"sync"
	"time"

	lime "github.com/takenet/lime-go"

	"verif/harness/internal/core"
	"verif/harness/internal/faultconn"
	"verif/harness/internal/gen"
	"verif/harness/internal/rig"
)

// C11 — Replies built from an envelope are correctly correlated and addressed.
type c11 struct{}

func init() { core.Register(c11{}) }

func (c11) ID() string                  { return "C11" }
func (c11) Level() string               { return "exploration" }
func (c11) ChildParallel() int          { return 1 }
func (c11) Exhaustive(tier string) bool { return false }
func (c11) Rule() string {
	return "Generated request commands and messages with from/pp/to present or absent in all 8 combinations (forced), pp/from complete or partial (no instance / no domain), all 7 methods, resource of every document kind or none, all 5 events, reason present/absent; every builder (SuccessResponse, SuccessResponseWithResource, FailureResponse, Message.Notification, Message.FailedNotification, Envelope.Sender). " +
		"Oracle: id, method, status/event, reason as requested; to = pp if present else from; from = request's to; the built envelope survives Marshal -> typed decode and a real tcpTransport Receive with status, reason, resource and resource type equal. " +
		"Ping end-to-end: ProcessCommand(get /ping) against a Server / Client built with AutoReplyPings over in-process, TCP, WebSocket in both directions, singly and in concurrent bursts with distinct ids and senders (replies are inspected after the whole burst). " +
		"Non-trivial = pp present or resource present; distinct = (from/pp/to mask, pp shape, builder, resource kind)."
}
func (c11) Assumptions() []string {
	return []string{"an absent 'from'/'to' on the request yields an absent field on the reply (nothing else can be derived from the envelope alone)"}
}
func (c11) Floors(tier string) map[string]int {
	return map[string]int{"requests": 1000, "messages": 500, "built": 4000, "wire_roundtrips": 4000, "ping_replies": 30, "ping_bursts": 6}
}

func (c11) Plan(tier string, seed uint64) []core.Case {
	var cases []core.Case
	nreq, nmsg := 4000, 2000
	if tier == "thorough" {
		nreq, nmsg = 40000, 20000
	}
	for i := 0; i < 16; i++ {
		cases = append(cases, core.Case{ID: fmt.Sprintf("C11/builders/%02d", i), Engine: "builders", Seed: core.Derive(seed, 1, uint64(i)).Uint64(), P: map[string]interface{}{"nreq": nreq / 16, "nmsg": nmsg / 16}, TimeoutS: 600})
	}
	reps := 1
	if tier == "thorough" {
		reps = 4
	}
	for rep := 0; rep < reps; rep++ {
		for _, f := range []string{rig.InProc, rig.TCP, rig.WS} {
			for _, dir := range []string{"server-replies", "client-replies"} {
				cases = append(cases, core.Case{ID: fmt.Sprintf("C11/ping/%s/%s/%d", f, dir, rep), Engine: "ping", Seed: core.Derive(seed, 2, uint64(rep)).Uint64(), P: map[string]interface{}{"flavour": f, "dir": dir}, TimeoutS: 120})
			}
		}
	}
	return cases
}

func c11expectTo(e lime.Envelope) lime.Node {
	if e.PP != (lime.Node{}) {
		return e.PP
	}
	return e.From
}

func (p c11) Run(c core.Case) core.Result {
	gen.Register()
	var r core.Result
	r.Verdict = core.Held
	switch c.Engine {
	case "builders":
		p.builders(&r, c)
	case "ping":
		p.ping(&r, c)
	}
	return r
}

// partial node shapes for pp/from
func c11node(g *gen.G, shape int) lime.Node {
	n := lime.Node{Identity: lime.Identity{Name: g.NonEmpty("@/"), Domain: g.NonEmpty("@/")}, Instance: g.NonEmpty("/")}
	switch shape {
	case 1:
		n.Instance = ""
	case 2:
		n.Domain = ""
	case 3:
		n.Domain, n.Instance = "", ""
	}
	return n
}

func (p c11) builders(r *core.Result, c core.Case) {
	g := gen.New(c.Seed)
	fps := map[string]bool{}
	tp := rig.NewTransportPair(faultconn.Options{}, nil, &lime.TCPConfig{ReadLimit: 64 << 20})
	tp.CA.SetTap(false)
	defer func() { tp.Close() }()
	wire := func(label string, v interface{}, kind string) {
		r.Count("built", 1)
		b, err := json.Marshal(v)
		if err != nil {
			r.Violate("C11/invalid/"+label+"/marshal", fmt.Sprintf("%s: built envelope cannot be encoded: %v (%+v)", label, err, v))
			return
		}
		d, err := c01typedDecode(kind, b)
		if err != nil {
			r.Violate("C11/invalid/"+label+"/typed-decode", fmt.Sprintf("%s: built envelope %s is rejected by the typed decoder: %v", label, b, err))
			return
		}
		if ok, where := gen.Eq(v, d); !ok {
			r.Violate("C11/wire/"+label+"/"+fieldOf(where), fmt.Sprintf("%s: built envelope changes over the wire at %s: %s", label, where, b))
		}
		go func() { _, _ = tp.CA.Write(append(b, '\n')) }()
		ctx, cancel := context.WithTimeout(context.Background(), 20*time.Second)
		env, err := tp.B.Receive(ctx)
		cancel()
		r.Count("wire_roundtrips", 1)
		if err != nil {
			r.Violate("C11/invalid/"+label+"/transport-receive", fmt.Sprintf("%s: built envelope %s is rejected by the receive path: %v", label, b, err))
			// the decoder may be latched: rebuild the pair
			tp.Close()
			tp = rig.NewTransportPair(faultconn.Options{}, nil, &lime.TCPConfig{ReadLimit: 64 << 20})
			tp.CA.SetTap(false)
			return
		}
		if gen.KindOf(env) != kind {
			r.Violate("C11/wire/"+label+"/kind", fmt.Sprintf("%s: built %s received as %s: %s", label, kind, gen.KindOf(env), b))
			return
		}
		if ok, where := gen.Eq(v, env); !ok {
			r.Violate("C11/wire/"+label+"/"+fieldOf(where), fmt.Sprintf("%s: built envelope differs after the receive path at %s: %s", label, where, b))
		}
	}
	nreq := c.Int("nreq", 100)
	for i := 0; i < nreq; i++ {
		mask := i % 8 // from/pp/to presence
		shape := (i / 8) % 4
		withRes := (i/32)%2 == 1
		emask := gen.FID
		if g.R.Chance(1, 10) {
			emask = 0
		}
		if g.R.Bool() {
			emask |= gen.FMeta
		}
		if withRes {
			emask |= gen.FResource
		}
		req, path := g.RequestCommand(emask)
		req.Method = gen.Methods[i%len(gen.Methods)]
		req.From, req.PP, req.To = lime.Node{}, lime.Node{}, lime.Node{}
		if mask&1 != 0 {
			req.From = c11node(g, (shape+1)%4)
		}
		if mask&2 != 0 {
			req.PP = c11node(g, shape)
		}
		if mask&4 != 0 {
			req.To = c11node(g, 0)
		}
		r.Evals++
		r.Count("requests", 1)
		wantTo := c11expectTo(req.Envelope)
		check := func(label string, resp *lime.ResponseCommand, status lime.CommandStatus, reason *lime.Reason, res lime.Document) {
			tag := fmt.Sprintf("%s(request id=%q from=%q pp=%q to=%q method=%s)", label, req.ID, req.From, req.PP, req.To, req.Method)
			if resp == nil {
				r.Violate("C11/nil/"+label, tag+": builder returned nil")
				return
			}
			if resp.ID != req.ID {
				r.Violate("C11/id/"+label, fmt.Sprintf("%s: response id %q", tag, resp.ID))
			}
			if resp.Method != req.Method {
				r.Violate("C11/method/"+label, fmt.Sprintf("%s: response method %q", tag, resp.Method))
			}
			if resp.To != wantTo {
				r.Violate("C11/to/"+label, fmt.Sprintf("%s: response addressed to %q, expected %q (pp if present, else from)", tag, resp.To, wantTo))
			}
			if resp.From != req.To {
				r.Violate("C11/from/"+label, fmt.Sprintf("%s: response from %q, expected the request's destination %q", tag, resp.From, req.To))
			}
			if resp.PP != (lime.Node{}) {
				r.Violate("C11/pp/"+label, fmt.Sprintf("%s: response carries pp %q", tag, resp.PP))
			}
			if resp.Status != status {
				r.Violate("C11/status/"+label, fmt.Sprintf("%s: status %q, expected %q", tag, resp.Status, status))
			}
			if (reason == nil) != (resp.Reason == nil) || (reason != nil && *reason != *resp.Reason) {
				r.Violate("C11/reason/"+label, fmt.Sprintf("%s: reason %v, expected %v", tag, resp.Reason, reason))
			}
			if res == nil {
				if resp.Resource != nil {
					r.Violate("C11/resource/"+label, tag+": unexpected resource")
				}
			} else {
				if ok, where := gen.Eq(res, resp.Resource); !ok {
					r.Violate("C11/resource/"+label, fmt.Sprintf("%s: resource differs at %s", tag, where))
				}
				if resp.Type == nil || *resp.Type != res.MediaType() {
					r.Violate("C11/resource-type/"+label, fmt.Sprintf("%s: resource type %v, expected %v", tag, resp.Type, res.MediaType()))
				}
			}
			wire(label, resp, "response")
		}
		check("SuccessResponse", req.SuccessResponse(), lime.CommandStatusSuccess, nil, nil)
		var reason *lime.Reason
		if g.R.Chance(3, 4) {
			reason = &lime.Reason{Code: g.R.Intn(100), Description: g.Str("")}
		}
		var rc *lime.Reason
		if reason != nil {
			cp := *reason
			rc = &cp
		}
		check("FailureResponse", req.FailureResponse(rc), lime.CommandStatusFailure, reason, nil)
		// a resource whose media type is fixed by the document itself (registered types, text/plain, application/json)
		doc, _, dpath := g.Document(2, "")
		switch d := doc.(type) {
		case lime.TextDocument:
			_ = d
		}
		check("SuccessResponseWithResource", req.SuccessResponseWithResource(doc), lime.CommandStatusSuccess, nil, doc)
		if s := req.Sender(); s != wantTo {
			r.Violate("C11/sender/request", fmt.Sprintf("Sender() of request from=%q pp=%q is %q, expected %q", req.From, req.PP, s, wantTo))
		}
		if mask&2 != 0 || withRes {
			fps[fmt.Sprintf("req|%d|%d|%v|%s|%s", mask, shape, withRes, path, dpath)] = true
		}
		if r.Sample == nil && mask == 7 {
			b, _ := json.Marshal(req)
			pb, _ := json.Marshal(req.FailureResponse(rc))
			r.Sample = map[string]interface{}{"request": string(b), "FailureResponse": string(pb)}
		}
	}
	nmsg := c.Int("nmsg", 50)
	for i := 0; i < nmsg; i++ {
		mask := i % 8
		shape := (i / 8) % 4
		emask := gen.FID
		if g.R.Chance(1, 10) {
			emask = 0
		}
		msg, path := g.Message(emask)
		msg.From, msg.PP, msg.To = lime.Node{}, lime.Node{}, lime.Node{}
		if mask&1 != 0 {
			msg.From = c11node(g, (shape+2)%4)
		}
		if mask&2 != 0 {
			msg.PP = c11node(g, shape)
		}
		if mask&4 != 0 {
			msg.To = c11node(g, 0)
		}
		r.Evals++
		r.Count("messages", 1)
		wantTo := c11expectTo(msg.Envelope)
		ev := gen.Events[i%len(gen.Events)]
		checkN := func(label string, n *lime.Notification, event lime.NotificationEvent, reason *lime.Reason) {
			tag := fmt.Sprintf("%s(message id=%q from=%q pp=%q to=%q)", label, msg.ID, msg.From, msg.PP, msg.To)
			if n == nil {
				r.Violate("C11/nil/"+label, tag)
				return
			}
			if n.ID != msg.ID {
				r.Violate("C11/id/"+label, fmt.Sprintf("%s: notification id %q", tag, n.ID))
			}
			if n.Event != event {
				r.Violate("C11/event/"+label, fmt.Sprintf("%s: event %q expected %q", tag, n.Event, event))
			}
			if n.To != wantTo {
				r.Violate("C11/to/"+label, fmt.Sprintf("%s: notification addressed to %q, expected %q", tag, n.To, wantTo))
			}
			if n.From != msg.To {
				r.Violate("C11/from/"+label, fmt.Sprintf("%s: notification from %q, expected %q", tag, n.From, msg.To))
			}
			if (reason == nil) != (n.Reason == nil) || (reason != nil && *reason != *n.Reason) {
				r.Violate("C11/reason/"+label, fmt.Sprintf("%s: reason %v expected %v", tag, n.Reason, reason))
			}
			wire(label, n, "notification")
		}
		checkN("Notification", msg.Notification(ev), ev, nil)
		reason := &lime.Reason{Code: 1 + g.R.Intn(50), Description: g.Str("")}
		cp := *reason
		checkN("FailedNotification", msg.FailedNotification(&cp), lime.NotificationEventFailed, reason)
		if s := msg.Sender(); s != wantTo {
			r.Violate("C11/sender/message", fmt.Sprintf("Sender() of message from=%q pp=%q is %q, expected %q", msg.From, msg.PP, s, wantTo))
		}
		if mask&2 != 0 {
			fps[fmt.Sprintf("msg|%d|%d|%s|%s", mask, shape, ev, path)] = true
		}
	}
	for k := range fps {
		r.Fingerprints = append(r.Fingerprints, k)
	}
}

// ping end-to-end.
func (p c11) ping(r *core.Result, c core.Case) {
	flavour := c.Str("flavour", rig.InProc)
	dir := c.Str("dir", "server-replies")
	r.NonTrivial = true
	r.Fingerprint = "ping|" + flavour + "|" + dir
	ctx, cancel := context.WithTimeout(context.Background(), 60*time.Second)
	defer cancel()

	var serverChans sync.Map
	b := lime.NewServerBuilder().Domain("verif.local").Name("postmaster").Instance("srv").EnableGuestAuthentication()
	b.Established(func(id string, sc *lime.ServerChannel) { serverChans.Store(id, sc) })
	b.Register(func(ctx context.Context, n lime.Node, sc *lime.ServerChannel) (lime.Node, error) {
		return lime.Node{Identity: lime.Identity{Name: n.Name, Domain: "verif.local"}, Instance: "i"}, nil
	})
	if dir == "server-replies" {
		b.AutoReplyPings()
	}
	srvTmp := b.ListenInProcess(rig.NewInProcAddr()).Build() // never started: only its config and mux are used
	cfg := srvTmp.VerifConfig()
	cfg.SchemeOpts = []lime.AuthenticationScheme{lime.AuthenticationSchemeGuest}
	sr, err := rig.StartServer(cfg, srvTmp.VerifMux(), []string{flavour}, 0)
	if err != nil {
		r.Verdict = core.Inconclusive
		r.Note = "server start: " + err.Error()
		return
	}
	defer sr.Close(10 * time.Second)

	mkPing := func(id string, from lime.Node) *lime.RequestCommand {
		req := &lime.RequestCommand{}
		req.ID = id
		req.Method = lime.CommandMethodGet
		req.SetURIString("/ping")
		req.From = from
		return req
	}
	checkReply := func(label string, req *lime.RequestCommand, resp *lime.ResponseCommand, err error) {
		r.Evals++
		if err != nil {
			r.Violate("C11/ping/"+dir+"/no-reply", fmt.Sprintf("%s over %s: ProcessCommand(get /ping id=%s) failed: %v", label, flavour, req.ID, err))
			return
		}
		r.Count("ping_replies", 1)
		if resp.ID != req.ID {
			r.Violate("C11/ping/"+dir+"/id", fmt.Sprintf("%s over %s: reply id %q for request id %q", label, flavour, resp.ID, req.ID))
		}
		if resp.Status != lime.CommandStatusSuccess {
			r.Violate("C11/ping/"+dir+"/status", fmt.Sprintf("%s over %s: status %q reason %v", label, flavour, resp.Status, resp.Reason))
		}
		if resp.Method != lime.CommandMethodGet {
			r.Violate("C11/ping/"+dir+"/method", fmt.Sprintf("%s: method %q", label, resp.Method))
		}
		if _, ok := resp.Resource.(*lime.Ping); !ok {
			r.Violate("C11/ping/"+dir+"/resource", fmt.Sprintf("%s over %s: resource is %T, expected a decodable ping document (type %v)", label, flavour, resp.Resource, resp.Type))
		}
		if resp.To != req.Sender() {
			r.Violate("C11/ping/"+dir+"/to", fmt.Sprintf("%s over %s: reply addressed to %q, request sender is %q", label, flavour, resp.To, req.Sender()))
		}
	}

	if dir == "server-replies" {
		cc, _, err := sr.EstablishClient(ctx, flavour, 8, 8, lime.Identity{Name: "11111111-1111-1111-1111-111111111111", Domain: "verif.local"}, "c1")
		if err != nil {
			r.Verdict = core.Inconclusive
			r.Note = "client establish: " + err.Error()
			return
		}
		defer cc.Close()
		go func() { // drain other streams
			for range cc.MsgChan() {
			}
		}()
		for i := 0; i < 3; i++ {
			req := mkPing(fmt.Sprintf("single-%d", i), lime.Node{Identity: lime.Identity{Name: fmt.Sprintf("u%d", i), Domain: "d"}, Instance: "x"})
			pctx, pc := context.WithTimeout(ctx, 10*time.Second)
			resp, err := cc.ProcessCommand(pctx, req)
			pc()
			checkReply("single", req, resp, err)
		}
		// bursts with distinct ids and senders; replies inspected after the whole burst
		for burst := 0; burst < 6; burst++ {
			const n = 8
			reqs := make([]*lime.RequestCommand, n)
			resps := make([]*lime.ResponseCommand, n)
			errs := make([]error, n)
			var wg sync.WaitGroup
			for i := 0; i < n; i++ {
				reqs[i] = mkPing(fmt.Sprintf("burst-%d-%d", burst, i), lime.Node{Identity: lime.Identity{Name: fmt.Sprintf("b%d-%d", burst, i), Domain: "d"}, Instance: "y"})
				wg.Add(1)
				go func(i int) {
					defer wg.Done()
					pctx, pc := context.WithTimeout(ctx, 10*time.Second)
					defer pc()
					resps[i], errs[i] = cc.ProcessCommand(pctx, reqs[i])
				}(i)
			}
			wg.Wait()
			time.Sleep(2 * time.Millisecond)
			r.Count("ping_bursts", 1)
			for i := 0; i < n; i++ {
				checkReply("burst", reqs[i], resps[i], errs[i])
			}
		}
		fctx, fc := context.WithTimeout(ctx, 10*time.Second)
		_, _ = cc.FinishSession(fctx)
		fc()
		return
	}
	// client-replies: a Client built with AutoReplyPings; the server pings it through its ServerChannel
	cb := lime.NewClientBuilder().Name("22222222-2222-2222-2222-222222222222").Domain("verif.local").Instance("c2").GuestAuthentication().AutoReplyPings().ChannelBufferSize(8)
	switch flavour {
	case rig.InProc:
		cb.UseInProcess(sr.InProcAddr, 8)
	case rig.TCP:
		cb.UseTCP(sr.Addr(rig.TCP), &lime.TCPConfig{TLSConfig: rig.ClientTLS()})
		cb.Encryption(lime.SessionEncryptionNone)
	case rig.WS:
		cb.UseWebsocket("ws://"+sr.Addr(rig.WS).String(), nil, nil)
		cb.Encryption(lime.SessionEncryptionNone)
	}
	cb.Compression(lime.SessionCompressionNone)
	client := cb.Build()
	defer client.Close()
	ectx, ec := context.WithTimeout(ctx, 15*time.Second)
	err = client.Establish(ectx)
	ec()
	if err != nil {
		r.Verdict = core.Inconclusive
		r.Note = "client establish: " + err.Error()
		return
	}
	var sc *lime.ServerChannel
	for i := 0; i < 500 && sc == nil; i++ {
		serverChans.Range(func(k, v interface{}) bool { sc = v.(*lime.ServerChannel); return false })
		if sc == nil {
			time.Sleep(5 * time.Millisecond)
		}
	}
	if sc == nil {
		r.Verdict = core.Inconclusive
		r.Note = "no server channel"
		return
	}
	for i := 0; i < 3; i++ {
		req := mkPing(fmt.Sprintf("s2c-%d", i), sc.LocalNode())
		pctx, pc := context.WithTimeout(ctx, 10*time.Second)
		resp, err := sc.ProcessCommand(pctx, req)
		pc()
		checkReply("server-to-client", req, resp, err)
	}
	for burst := 0; burst < 6; burst++ {
		const n = 6
		reqs := make([]*lime.RequestCommand, n)
		resps := make([]*lime.ResponseCommand, n)
		errs := make([]error, n)
		var wg sync.WaitGroup
		for i := 0; i < n; i++ {
			reqs[i] = mkPing(fmt.Sprintf("s2c-burst-%d-%d", burst, i), lime.Node{Identity: lime.Identity{Name: fmt.Sprintf("sb%d-%d", burst, i), Domain: "d"}, Instance: "z"})
			wg.Add(1)
			go func(i int) {
				defer wg.Done()
				pctx, pc := context.WithTimeout(ctx, 10*time.Second)
				defer pc()
				resps[i], errs[i] = sc.ProcessCommand(pctx, reqs[i])
			}(i)
		}
		wg.Wait()
		time.Sleep(2 * time.Millisecond)
		r.Count("ping_bursts", 1)
		for i := 0; i < n; i++ {
			checkReply("server-to-client-burst", reqs[i], resps[i], errs[i])
		}
	}
}
