package props

import (
	"context"
	"crypto/sha1"
	"encoding/hex"
	"fmt"
	"runtime"
	"strings"
	"sync"
	"sync/atomic"
	"time"

	lime "github.com/takenet/lime-go"

	"reflect"
	"verif/harness/internal/core"
	"verif/harness/internal/faultconn"
	"verif/harness/internal/hs"
	"verif/harness/internal/rig"
)

// C04 — Established channels deliver every envelope exactly once, intact, in order.
type c04 struct{}

func init() { core.Register(c04{}) }

func (c04) ID() string                  { return "C04" }
func (c04) Level() string               { return "exploration" }
func (c04) ChildParallel() int          { return 1 }
func (c04) Exhaustive(tier string) bool { return false }
func (c04) Rule() string {
	return "Session rig: a real Server (envelope mux handlers = delivery on the server side) and a real ClientChannel (inbound streams consumed by one goroutine per kind = delivery on the client side) over {in-process, TCP, TCP upgraded to TLS, WebSocket, secure WebSocket, and the real tcpTransport over a chunking in-memory connection on which unsynchronised writers would interleave}. Both directions send at once, kinds mixed by PRNG (message, notification, request command, response command with unmatched ids), payload sizes from a few bytes to just under a 1 MiB read limit; every envelope carries a unique token (side.sender.kind.seq) and a checksum of its payload. " +
		"Cells: transport x channel buffer {0,1,32} x in-process transport buffer {0,1,8} x senders per side {1,4,16} x handler delay {0,200us,2ms} (quick: 18 cells covering every transport and buffer size; thorough: all cells, half of them under the race detector with seeded perturbation at the channel.recv.got / channel.send.checked hook points). " +
		"Offline oracle over the recorded send/receive events: every send that returned nil is received exactly once with equal content; sends that returned an error at most once; nothing is received that was not sent; per sender goroutine and kind the receive order equals the send order. Loss is declared only after quiescence (all senders returned, no receive for 3 s). Non-trivial = cell with >=2 senders or a buffer <=1; distinct = cell."
}
func (c04) Assumptions() []string {
	return []string{"handlers and stream consumers only record (and sleep): they never send, so zero-size buffers cannot deadlock by construction", "bounded progress: quiescence = 3 s without a receive event, hard watchdog 90 s"}
}
func (c04) Floors(tier string) map[string]int {
	return map[string]int{"cells": 12, "sent_ok": 5000, "received": 5000, "large_payloads": 10}
}

type c04cell struct {
	Transport string `json:"transport"`
	ChanBuf   int    `json:"chan_buf"`
	InprocBuf int    `json:"inproc_buf"`
	Senders   int    `json:"senders"`
	DelayUS   int    `json:"delay_us"`
	N         int    `json:"n"` // envelopes per direction
	Perturb   bool   `json:"perturb"`
}

func (c04) Plan(tier string, seed uint64) []core.Case {
	var cases []core.Case
	// a session that is silent for longer than the TCP transport's I/O poll interval (5 s) and then used again
	for _, t := range []string{rig.TCP, rig.TLS, rig.WS} {
		cases = append(cases, core.Case{ID: "C04/idle/" + t, Engine: "idle", Seed: seed, P: map[string]interface{}{"transport": t}, TimeoutS: 120})
	}
	transports := []string{rig.InProc, rig.TCP, rig.TLS, rig.WS, rig.WSS, "chunk"}
	add := func(c c04cell, race bool, s uint64) {
		id := fmt.Sprintf("C04/%s/cb%d/ib%d/s%d/d%d/%03d", c.Transport, c.ChanBuf, c.InprocBuf, c.Senders, c.DelayUS, len(cases))
		cases = append(cases, core.Case{ID: id, Engine: "cell", Seed: s, P: map[string]interface{}{"cell": c, "race": race}, TimeoutS: 200})
	}
	if tier != "thorough" {
		bufs := []int{0, 1, 32}
		senders := []int{1, 4, 16}
		delays := []int{0, 200, 2000}
		i := 0
		for _, t := range transports {
			for k := 0; k < 3; k++ {
				c := c04cell{Transport: t, ChanBuf: bufs[(i+k)%3], InprocBuf: []int{0, 1, 8}[(i+2*k)%3], Senders: senders[(i+k+1)%3], DelayUS: delays[(i+2*k+1)%3], N: 300}
				if c.DelayUS == 2000 {
					c.N = 120
				}
				add(c, false, core.Derive(seed, uint64(i), uint64(k)).Uint64())
			}
			i++
		}
		return cases
	}
	idx := 0
	for _, t := range transports {
		for _, cb := range []int{0, 1, 32} {
			for _, ib := range []int{0, 1, 8} {
				if t != rig.InProc && ib != 1 {
					continue // the transport buffer only exists in-process
				}
				for _, s := range []int{1, 4, 16} {
					for _, d := range []int{0, 200, 2000} {
						idx++
						n := 1200
						if d == 2000 {
							n = 150
						}
						add(c04cell{Transport: t, ChanBuf: cb, InprocBuf: ib, Senders: s, DelayUS: d, N: n, Perturb: idx%2 == 0}, idx%2 == 0, core.Derive(seed, uint64(idx)).Uint64())
					}
				}
			}
		}
	}
	return cases
}

type c04rec struct {
	tok  string
	sum  string
	kind string
	at   int64
}

type c04recorder struct {
	mu   sync.Mutex
	recv []c04rec
	last int64
}

func (r *c04recorder) add(tok, sum, kind string) {
	now := time.Now().UnixNano()
	r.mu.Lock()
	r.recv = append(r.recv, c04rec{tok, sum, kind, now})
	r.mu.Unlock()
	atomic.StoreInt64(&r.last, now)
}

func c04sum(s string) string {
	h := sha1.Sum([]byte(s))
	return hex.EncodeToString(h[:6])
}

type c04sent struct {
	tok, sum, kind string
	err            error
	sender         int
	seq            int
}

// payload for a token: deterministic from token and size
func c04payload(tok string, size int) string {
	if size <= len(tok)+1 {
		return tok
	}
	return tok + "|" + strings.Repeat("z", size-len(tok)-1)
}

func c04build(kind int, tok string, size int) (interface{}, string) {
	switch kind {
	case 0:
		m := &lime.Message{}
		m.ID = tok
		p := c04payload(tok, size)
		m.SetContent(lime.TextDocument(p))
		return m, c04sum(p)
	case 1:
		n := &lime.Notification{Event: lime.NotificationEventFailed, Reason: &lime.Reason{Code: len(tok), Description: c04payload(tok, size/4)}}
		n.ID = tok
		return n, c04sum(n.Reason.Description)
	case 2:
		c := &lime.RequestCommand{}
		c.ID = tok
		c.Method = lime.CommandMethodSet
		c.SetURIString("/c04/" + tok)
		p := c04payload(tok, size)
		c.SetResource(&lime.JsonDocument{"p": p})
		return c, c04sum(p)
	default:
		c := &lime.ResponseCommand{Status: lime.CommandStatusSuccess}
		c.ID = tok
		c.Method = lime.CommandMethodGet
		p := c04payload(tok, size)
		c.SetResource(lime.TextDocument(p))
		return c, c04sum(p)
	}
}

func c04observe(e interface{}) (tok, sum, kind string) {
	switch x := e.(type) {
	case *lime.Message:
		s := ""
		switch d := x.Content.(type) {
		case *lime.TextDocument:
			s = string(*d)
		case lime.TextDocument:
			s = string(d)
		}
		return x.ID, c04sum(s), "message"
	case *lime.Notification:
		d := ""
		if x.Reason != nil {
			d = x.Reason.Description
		}
		return x.ID, c04sum(d), "notification"
	case *lime.RequestCommand:
		s := ""
		if j, ok := x.Resource.(*lime.JsonDocument); ok && j != nil {
			s, _ = (*j)["p"].(string)
		}
		return x.ID, c04sum(s), "request"
	case *lime.ResponseCommand:
		s := ""
		switch d := x.Resource.(type) {
		case *lime.TextDocument:
			s = string(*d)
		case lime.TextDocument:
			s = string(d)
		}
		return x.ID, c04sum(s), "response"
	}
	return "?", "?", "?"
}

var c04kinds = []string{"message", "notification", "request", "response"}

type c04senderIface interface {
	SendMessage(ctx context.Context, msg *lime.Message) error
	SendNotification(ctx context.Context, not *lime.Notification) error
	SendRequestCommand(ctx context.Context, cmd *lime.RequestCommand) error
	SendResponseCommand(ctx context.Context, cmd *lime.ResponseCommand) error
}

func c04send(ctx context.Context, ch c04senderIface, e interface{}) error {
	switch x := e.(type) {
	case *lime.Message:
		return ch.SendMessage(ctx, x)
	case *lime.Notification:
		return ch.SendNotification(ctx, x)
	case *lime.RequestCommand:
		return ch.SendRequestCommand(ctx, x)
	case *lime.ResponseCommand:
		return ch.SendResponseCommand(ctx, x)
	}
	return fmt.Errorf("unknown")
}

// idle: three envelopes each way, 5.6 s of silence (more than one read poll of the TCP transport), three more each way.
func (p c04) idle(r *core.Result, c core.Case) {
	flavour := c.Str("transport", rig.TCP)
	var mu sync.Mutex
	var srvCh *lime.ServerChannel
	var atServer []string
	est := make(chan struct{}, 1)
	mux := &lime.EnvelopeMux{}
	mux.MessageHandlerFunc(nil, func(ctx context.Context, m *lime.Message, sd lime.Sender) error {
		mu.Lock()
		atServer = append(atServer, m.ID)
		mu.Unlock()
		return nil
	})
	cfg := rig.DefaultServerConfig()
	cfg.ChannelBufferSize = 4
	cfg.Established = func(id string, ch *lime.ServerChannel) {
		mu.Lock()
		srvCh = ch
		mu.Unlock()
		select {
		case est <- struct{}{}:
		default:
		}
	}
	sr, err := rig.StartServer(cfg, mux, []string{flavour}, 0)
	if err != nil {
		r.Verdict = core.Inconclusive
		r.Note = err.Error()
		return
	}
	defer sr.Close(20 * time.Second)
	ctx, cancel := context.WithTimeout(context.Background(), 60*time.Second)
	defer cancel()
	cc, _, err := sr.EstablishClient(ctx, flavour, 4, 4, lime.Identity{Name: "idle", Domain: "verif.local"}, "i")
	if err != nil {
		r.Verdict = core.Inconclusive
		r.Note = err.Error()
		return
	}
	defer cc.Close()
	select {
	case <-est:
	case <-time.After(5 * time.Second):
		r.Verdict = core.Inconclusive
		r.Note = "no Established callback"
		return
	}
	mu.Lock()
	sc := srvCh
	mu.Unlock()
	var atClient []string
	var cmu sync.Mutex
	go func() {
		for m := range cc.MsgChan() {
			cmu.Lock()
			atClient = append(atClient, m.ID)
			cmu.Unlock()
		}
	}()
	var wantS, wantC []string
	exchange := func(phase string) {
		for i := 0; i < 3; i++ {
			for _, dir := range []string{"c2s", "s2c"} {
				m := &lime.Message{}
				m.ID = fmt.Sprintf("%s-%s-%d", phase, dir, i)
				m.SetContent(lime.TextDocument("x"))
				octx, oc := context.WithTimeout(ctx, 10*time.Second)
				var err error
				if dir == "c2s" {
					err = cc.SendMessage(octx, m)
				} else {
					err = sc.SendMessage(octx, m)
				}
				oc()
				if err != nil {
					r.Violate("C04/idle/send-failed/"+flavour, fmt.Sprintf("%s, %s the silence: SendMessage %s failed although the session is established: %v", flavour, phase, m.ID, err))
					continue
				}
				if dir == "c2s" {
					wantS = append(wantS, m.ID)
				} else {
					wantC = append(wantC, m.ID)
				}
			}
		}
	}
	exchange("before")
	time.Sleep(5600 * time.Millisecond)
	exchange("after")
	ok := false
	for i := 0; i < 1500 && !ok; i++ {
		mu.Lock()
		cmu.Lock()
		ok = len(atServer) >= len(wantS) && len(atClient) >= len(wantC)
		cmu.Unlock()
		mu.Unlock()
		if !ok {
			time.Sleep(10 * time.Millisecond)
		}
	}
	mu.Lock()
	cmu.Lock()
	r.Evals++
	r.Count("idle_sessions", 1)
	r.Count("sent", len(wantS)+len(wantC))
	r.Count("delivered", len(atServer)+len(atClient))
	if !reflect.DeepEqual(atServer, wantS) {
		r.Violate("C04/idle/lost/"+flavour+"/to-server", fmt.Sprintf("%s: after 5.6 s of silence on an established session the client sent %v (every send returned nil); the server's handler saw %v", flavour, wantS, atServer))
	}
	if !reflect.DeepEqual(atClient, wantC) {
		r.Violate("C04/idle/lost/"+flavour+"/to-client", fmt.Sprintf("%s: after 5.6 s of silence on an established session the server sent %v (every send returned nil); the client's stream yielded %v", flavour, wantC, atClient))
	}
	cmu.Unlock()
	mu.Unlock()
	r.Fingerprints = append(r.Fingerprints, "idle|"+flavour)
}

func (p c04) Run(c core.Case) core.Result {
	var r core.Result
	r.Verdict = core.Held
	if c.Engine == "idle" {
		p.idle(&r, c)
		return r
	}
	var cell c04cell
	remarshal(c.P["cell"], &cell)
	rng := core.NewRng(c.Seed)
	tag := fmt.Sprintf("%s chanbuf=%d inprocbuf=%d senders=%d delay=%dus", cell.Transport, cell.ChanBuf, cell.InprocBuf, cell.Senders, cell.DelayUS)

	var hookHits int64
	if cell.Perturb {
		var hmu sync.Mutex
		hr := core.NewRng(c.Seed ^ 0xabc)
		lime.VerifSetPointHandler(func(name string) {
			if name != "channel.recv.got" && name != "channel.send.checked" {
				return
			}
			atomic.AddInt64(&hookHits, 1)
			hmu.Lock()
			k := hr.Intn(20)
			hmu.Unlock()
			switch {
			case k < 6:
				runtime.Gosched()
			case k == 6:
				time.Sleep(time.Duration(20+k*50) * time.Microsecond)
			}
		})
		defer lime.VerifSetPointHandler(nil)
	}

	srvRec, cliRec := &c04recorder{}, &c04recorder{}
	pcSeen := make(chan string, 16)
	delay := func() {
		if cell.DelayUS > 0 {
			time.Sleep(time.Duration(cell.DelayUS) * time.Microsecond)
		}
	}
	mux := &lime.EnvelopeMux{}
	mux.MessageHandlerFunc(nil, func(ctx context.Context, m *lime.Message, s lime.Sender) error {
		srvRec.add(c04observe(m))
		delay()
		return nil
	})
	mux.NotificationHandlerFunc(nil, func(ctx context.Context, m *lime.Notification) error {
		srvRec.add(c04observe(m))
		delay()
		return nil
	})
	mux.RequestCommandHandlerFunc(nil, func(ctx context.Context, m *lime.RequestCommand, s lime.Sender) error {
		if strings.HasPrefix(m.ID, "pc.") {
			// ProcessCommand traffic of the canceller goroutine: answered at once (not part of the token accounting)
			select {
			case pcSeen <- m.ID:
			default:
			}
			rctx, rc := context.WithTimeout(ctx, 5*time.Second)
			_ = s.SendResponseCommand(rctx, m.SuccessResponse())
			rc()
			return nil
		}
		srvRec.add(c04observe(m))
		delay()
		return nil
	})
	mux.ResponseCommandHandlerFunc(nil, func(ctx context.Context, m *lime.ResponseCommand, s lime.Sender) error {
		srvRec.add(c04observe(m))
		delay()
		return nil
	})
	// a second, overlapping handler per kind: it must never run (exactly one delivery per envelope)
	mux.MessageHandlerFunc(func(*lime.Message) bool { return true }, func(ctx context.Context, m *lime.Message, s lime.Sender) error {
		srvRec.add(c04observe(m))
		return nil
	})
	mux.NotificationHandlerFunc(nil, func(ctx context.Context, m *lime.Notification) error {
		srvRec.add(c04observe(m))
		return nil
	})
	mux.RequestCommandHandlerFunc(nil, func(ctx context.Context, m *lime.RequestCommand, s lime.Sender) error {
		srvRec.add(c04observe(m))
		return nil
	})
	mux.ResponseCommandHandlerFunc(func(*lime.ResponseCommand) bool { return true }, func(ctx context.Context, m *lime.ResponseCommand, s lime.Sender) error {
		srvRec.add(c04observe(m))
		return nil
	})
	cfg := rig.DefaultServerConfig()
	cfg.ChannelBufferSize = cell.ChanBuf
	scCh := make(chan *lime.ServerChannel, 1)
	cfg.Established = func(id string, sc *lime.ServerChannel) {
		select {
		case scCh <- sc:
		default:
		}
	}
	const limit = 1 << 20
	ctx, cancel := context.WithTimeout(context.Background(), 150*time.Second)
	defer cancel()

	var cc *lime.ClientChannel
	var closeServer func()
	if cell.Transport == "chunk" {
		lst := hs.NewFaultListener()
		srv := lime.NewServer(cfg, mux, lst.Bound())
		serveErr := make(chan error, 1)
		go func() { serveErr <- srv.ListenAndServe() }()
		closeServer = func() {
			_ = srv.Close()
			select {
			case <-serveErr:
			case <-time.After(10 * time.Second):
			}
		}
		ca, cb := faultconn.Pair(faultconn.Options{CapAtoB: 1 << 16, CapBtoA: 1 << 16})
		ca.SetTap(false)
		ca.SetWritePlan(faultconn.WritePlan{Chunk: 7, FailAt: -1})
		cb.SetWritePlan(faultconn.WritePlan{Chunk: 7, FailAt: -1})
		st := lime.VerifNewTCPTransport(cb, true, &lime.TCPConfig{ReadLimit: limit})
		ct := lime.VerifNewTCPTransport(ca, false, &lime.TCPConfig{ReadLimit: limit})
		if !lst.Push(st) {
			r.Verdict = core.Inconclusive
			r.Note = "fault listener did not accept"
			closeServer()
			return r
		}
		cc = lime.NewClientChannel(ct, cell.ChanBuf)
		ses, err := cc.EstablishSession(ctx, lime.NoneCompressionSelector, lime.NoneEncryptionSelector, lime.Identity{Name: "c04", Domain: "verif.local"}, lime.GuestAuthenticator, "i")
		if err != nil || ses.State != lime.SessionStateEstablished {
			r.Verdict = core.Inconclusive
			r.Note = fmt.Sprintf("establish over chunk: %v", err)
			closeServer()
			return r
		}
	} else {
		sr, err := rig.StartServer(cfg, mux, []string{cell.Transport}, limit)
		if err != nil {
			r.Verdict = core.Inconclusive
			r.Note = err.Error()
			return r
		}
		closeServer = func() { sr.Close(15 * time.Second) }
		t, err := sr.Dial(ctx, cell.Transport, cell.InprocBuf, &lime.TCPConfig{TLSConfig: rig.ClientTLS(), ReadLimit: limit})
		if err != nil {
			r.Verdict = core.Inconclusive
			r.Note = err.Error()
			closeServer()
			return r
		}
		cc = lime.NewClientChannel(t, cell.ChanBuf)
		ses, err := cc.EstablishSession(ctx, lime.NoneCompressionSelector, rig.EncryptSelector(cell.Transport), lime.Identity{Name: "c04", Domain: "verif.local"}, lime.GuestAuthenticator, "i")
		if err != nil || ses.State != lime.SessionStateEstablished {
			r.Verdict = core.Inconclusive
			r.Note = fmt.Sprintf("establish over %s: %v", cell.Transport, err)
			closeServer()
			return r
		}
	}
	var sc *lime.ServerChannel
	select {
	case sc = <-scCh:
	case <-time.After(10 * time.Second):
		r.Verdict = core.Inconclusive
		r.Note = "no established callback"
		closeServer()
		return r
	}
	// client-side consumers: one goroutine per inbound stream
	var consumers sync.WaitGroup
	consumers.Add(4)
	go func() {
		defer consumers.Done()
		for m := range cc.MsgChan() {
			cliRec.add(c04observe(m))
			delay()
		}
	}()
	go func() {
		defer consumers.Done()
		for m := range cc.NotChan() {
			cliRec.add(c04observe(m))
			delay()
		}
	}()
	go func() {
		defer consumers.Done()
		for m := range cc.ReqCmdChan() {
			cliRec.add(c04observe(m))
			delay()
		}
	}()
	go func() {
		defer consumers.Done()
		for m := range cc.RespCmdChan() {
			if strings.HasPrefix(m.ID, "pc.") {
				continue // late answer to a cancelled ProcessCommand
			}
			cliRec.add(c04observe(m))
			delay()
		}
	}()

	// senders
	sizes := []int{0, 8, 40, 200, 1000, 5000}
	large := []int{64 * 1024, 300 * 1024, 900 * 1024}
	runSide := func(side string, ch c04senderIface, seed uint64) [][]c04sent {
		out := make([][]c04sent, cell.Senders)
		var wg sync.WaitGroup
		per := cell.N / cell.Senders
		if per < 1 {
			per = 1
		}
		for s := 0; s < cell.Senders; s++ {
			wg.Add(1)
			go func(s int) {
				defer wg.Done()
				lr := core.Derive(seed, uint64(s))
				seqs := [4]int{}
				for i := 0; i < per; i++ {
					kind := lr.Intn(4)
					size := sizes[lr.Intn(len(sizes))]
					if i == per/2 && s < 2 {
						size = large[lr.Intn(len(large))]
						if kind == 1 {
							kind = 0
						}
					}
					tok := fmt.Sprintf("%s.%d.%s.%d", side, s, c04kinds[kind], seqs[kind])
					e, sum := c04build(kind, tok, size)
					sctx, scancel := context.WithTimeout(ctx, 60*time.Second)
					err := c04send(sctx, ch, e)
					scancel()
					out[s] = append(out[s], c04sent{tok, sum, c04kinds[kind], err, s, seqs[kind]})
					seqs[kind]++
					if size >= 64*1024 {
						r.Count("large_payloads", 1)
					}
				}
			}(s)
		}
		wg.Wait()
		return out
	}
	// a canceller: ProcessCommand calls whose context ends around the time the answer arrives
	stopPC := make(chan struct{})
	var pcWG sync.WaitGroup
	pcWG.Add(1)
	go func() {
		defer pcWG.Done()
		pr := core.NewRng(c.Seed ^ 0x77)
		for i := 0; ; i++ {
			select {
			case <-stopPC:
				return
			default:
			}
			req := &lime.RequestCommand{}
			req.ID = fmt.Sprintf("pc.%d", i)
			req.Method = lime.CommandMethodGet
			req.SetURIString("/pc")
			// the context is cancelled only after the server has seen the request (the send is complete: a send
			// interrupted by its context may legitimately break the connection), right around the answer's arrival
			pctx, pcancel := context.WithCancel(ctx)
			spin := pr.Intn(3000)
			go func(id string) {
				deadline := time.After(2 * time.Second)
				for {
					select {
					case got := <-pcSeen:
						if got != id {
							continue
						}
						for k := 0; k < spin; k++ {
							runtime.Gosched()
						}
						pcancel()
						return
					case <-deadline:
						pcancel()
						return
					case <-pctx.Done():
						return
					}
				}
			}(req.ID)
			_, err := cc.ProcessCommand(pctx, req)
			pcancel()
			if err != nil {
				r.Count("process_command_cancelled", 1)
			} else {
				r.Count("process_command_answered", 1)
			}
			if i%8 == 0 {
				runtime.Gosched()
			}
		}
	}()
	var cliSent, srvSent [][]c04sent
	var both sync.WaitGroup
	both.Add(2)
	var cmu sync.Mutex
	_ = cmu
	go func() { defer both.Done(); cliSent = runSide("cli", cc, rng.Uint64()) }()
	go func() { defer both.Done(); srvSent = runSide("srv", sc, rng.Uint64()) }()
	sendersDone := make(chan struct{})
	go func() { both.Wait(); close(stopPC); pcWG.Wait(); close(sendersDone) }()
	hard := time.After(90 * time.Second)
	select {
	case <-sendersDone:
	case <-hard:
		r.Violate("C04/senders-blocked/"+cell.Transport, fmt.Sprintf("%s: senders did not return within 90 s although every consumer keeps draining", tag))
		buf := make([]byte, 1<<18)
		n := runtime.Stack(buf, true)
		r.Log = strings.Split(string(buf[:n]), "\n")
		if len(r.Log) > 200 {
			r.Log = r.Log[:200]
		}
		return r
	}
	count := func(l [][]c04sent) (ok int) {
		for _, s := range l {
			for _, e := range s {
				if e.err == nil {
					ok++
				}
			}
		}
		return
	}
	wantSrv, wantCli := count(cliSent), count(srvSent)
	// quiescence: everything arrived, or nothing for 3 s
	start := time.Now()
	for {
		srvRec.mu.Lock()
		gs := len(srvRec.recv)
		srvRec.mu.Unlock()
		cliRec.mu.Lock()
		gc := len(cliRec.recv)
		cliRec.mu.Unlock()
		if gs >= wantSrv && gc >= wantCli {
			break
		}
		last := atomic.LoadInt64(&srvRec.last)
		if l2 := atomic.LoadInt64(&cliRec.last); l2 > last {
			last = l2
		}
		idle := time.Since(time.Unix(0, last))
		if last == 0 {
			idle = time.Since(start)
		}
		if idle > 3*time.Second || time.Since(start) > 60*time.Second {
			break
		}
		time.Sleep(5 * time.Millisecond)
	}
	// a little longer to catch duplicates / fabricated envelopes arriving late
	time.Sleep(30 * time.Millisecond)
	starved := core.CanaryWorstMS() > 1500

	judge := func(dir string, sent [][]c04sent, rec *c04recorder) {
		rec.mu.Lock()
		got := append([]c04rec{}, rec.recv...)
		rec.mu.Unlock()
		bytok := map[string][]c04rec{}
		for _, g := range got {
			bytok[g.tok] = append(bytok[g.tok], g)
		}
		sentTok := map[string]c04sent{}
		for _, s := range sent {
			for _, e := range s {
				sentTok[e.tok] = e
				if e.err == nil {
					r.Count("sent_ok", 1)
				} else {
					r.Count("sent_err", 1)
				}
			}
		}
		r.Count("received", len(got))
		for tok, e := range sentTok {
			g := bytok[tok]
			if len(g) == 0 && e.err == nil {
				if starved {
					r.Verdict = core.Inconclusive
					r.Note = "possible loss under starvation"
					continue
				}
				r.Violate("C04/lost/"+cell.Transport+"/"+e.kind, fmt.Sprintf("%s, %s: %s was sent successfully but never delivered (after quiescence)", tag, dir, tok))
			}
			if len(g) > 1 {
				r.Violate("C04/duplicated/"+cell.Transport+"/"+e.kind, fmt.Sprintf("%s, %s: %s delivered %d times", tag, dir, tok, len(g)))
			}
			if len(g) >= 1 {
				if g[0].sum != e.sum || g[0].kind != e.kind {
					r.Violate("C04/corrupted/"+cell.Transport+"/"+e.kind, fmt.Sprintf("%s, %s: %s delivered with different content (checksum %s, sent %s; kind %s)", tag, dir, tok, g[0].sum, e.sum, g[0].kind))
				}
			}
		}
		for tok := range bytok {
			if _, ok := sentTok[tok]; !ok {
				r.Violate("C04/fabricated/"+cell.Transport, fmt.Sprintf("%s, %s: an envelope with token %q was delivered but never sent", tag, dir, tok))
			}
		}
		// per (sender, kind): order of delivery = order of sending
		lastSeq := map[string]int{}
		for _, g := range got {
			e, ok := sentTok[g.tok]
			if !ok {
				continue
			}
			key := fmt.Sprintf("%d.%s", e.sender, e.kind)
			if prev, ok := lastSeq[key]; ok && e.seq < prev {
				r.Violate("C04/reordered/"+cell.Transport+"/"+e.kind, fmt.Sprintf("%s, %s: %s delivered after seq %d of the same sender and kind", tag, dir, g.tok, prev))
			}
			lastSeq[key] = e.seq
		}
	}
	judge("client->server", cliSent, srvRec)
	judge("server->client", srvSent, cliRec)
	r.Evals = 1
	r.Count("cells", 1)
	r.Count("hook_hits", int(atomic.LoadInt64(&hookHits)))
	r.AddSet("transports_covered", cell.Transport)
	r.NonTrivial = cell.Senders >= 2 || cell.ChanBuf <= 1
	r.Fingerprint = tag
	r.Sample = map[string]interface{}{"cell": cell, "client_sent_ok": wantSrv, "server_sent_ok": wantCli, "example_token": "cli.0.message.0"}

	// teardown (bounded: a wedged receiver must not hide the verdict)
	tdone := make(chan struct{})
	go func() {
		fctx, fc := context.WithTimeout(context.Background(), 10*time.Second)
		_, _ = cc.FinishSession(fctx)
		fc()
		_ = cc.Close()
		closeServer()
		close(tdone)
	}()
	select {
	case <-tdone:
	case <-time.After(40 * time.Second):
		buf := make([]byte, 1<<18)
		n := runtime.Stack(buf, true)
		r.Violate("C04/teardown-blocked/"+cell.Transport, fmt.Sprintf("%s: finishing and closing the session did not complete within 40 s (a receiver or sender is wedged)", tag))
		r.Log = strings.Split(string(buf[:n]), "\n")
		if len(r.Log) > 250 {
			r.Log = r.Log[:250]
		}
	}
	return r
}

func remarshal(in interface{}, out interface{}) {
	b, _ := jsonMarshal(in)
	_ = jsonUnmarshal(b, out)
}
