package props

import (
	"context"
	"fmt"
	"net"
	"sync"
	"sync/atomic"
	"time"

	"github.com/gorilla/websocket"
	lime "github.com/takenet/lime-go"

	"verif/harness/internal/core"
	"verif/harness/internal/rig"
)

// C14 — Every connection that fails to establish is released.
type c14 struct{}

func init() { core.Register(c14{}) }

func (c14) ID() string                  { return "C14" }
func (c14) Level() string               { return "fault_enumeration" }
func (c14) ChildParallel() int          { return 1 }
func (c14) Exhaustive(tier string) bool { return false }
func (c14) Rule() string {
	return "Handshake explorer through the real Server.handleChannel (see C07's rule): every failing branch - protocol violations at each stage, rejected credentials (unknown / empty role), Authenticate and Register callback errors, undecodable and non-session input, truncated envelope + half-close, half-close and disconnect at every step - enumerated breadth-first to the depth bound over the configuration lattice. Monitor: after the failing step the scripted client must observe the server closing the connection (decided on connection state: 'server waits for more input on an open connection' is the refutation, no timeout involved); after a client disconnect the server end must be closed within 3 s; neither the Established nor the Finished callback may fire. " +
		"Real listeners: the same failure classes over real TCP, WebSocket and in-process listeners (typed envelopes only for in-process), with a census of lime-owned goroutines after the batch. Non-trivial = all failing scripts; distinct = (failure class, step, transport/config)."
}
func (c14) Assumptions() []string {
	return []string{"bounded progress: 10 s for the close to be observed on real sockets, 12 s for the goroutine census to settle"}
}
func (c14) Floors(tier string) map[string]int {
	return map[string]int{"runs": 1500, "closed_by_server": 1000, "scripts_with_client_violation": 300, "scripts_with_outside_input": 200, "real_failures_observed": 20}
}
func (c14) Plan(tier string, seed uint64) []core.Case {
	cases := explorerCases("C14", tier, seed, hsConfigs(tier))
	for _, f := range []string{rig.TCP, rig.WS, rig.InProc} {
		cases = append(cases, core.Case{ID: "C14/real/" + f, Engine: "real", Seed: seed, P: map[string]interface{}{"flavour": f}, Solo: true, TimeoutS: 180})
	}
	return cases
}
func (p c14) Run(c core.Case) core.Result {
	var r core.Result
	r.Verdict = core.Held
	if c.Engine == "real" {
		p.real(&r, c)
		return r
	}
	runExplorerCase(&r, []string{"C14"}, c)
	return r
}

// real listeners: each failing script runs on its own connection, all concurrently.
func (p c14) real(r *core.Result, c core.Case) {
	flavour := c.Str("flavour", rig.TCP)
	var estab, fin int64
	authMode := func(id lime.Identity) string { return id.Name }
	cfg := rig.DefaultServerConfig()
	cfg.SchemeOpts = []lime.AuthenticationScheme{lime.AuthenticationSchemeGuest, lime.AuthenticationSchemePlain}
	cfg.EncryptOpts = []lime.SessionEncryption{lime.SessionEncryptionNone}
	cfg.Authenticate = func(ctx context.Context, id lime.Identity, a lime.Authentication) (*lime.AuthenticationResult, error) {
		switch authMode(id) {
		case "autherr":
			return nil, fmt.Errorf("backend down")
		case "unknown":
			return lime.UnknownAuthenticationResult(), nil
		}
		return lime.MemberAuthenticationResult(), nil
	}
	cfg.Register = func(ctx context.Context, n lime.Node, sc *lime.ServerChannel) (lime.Node, error) {
		if n.Name == "regerr" {
			return lime.Node{}, fmt.Errorf("registry down")
		}
		return lime.Node{Identity: lime.Identity{Name: n.Name, Domain: "verif.local"}, Instance: "i"}, nil
	}
	cfg.Established = func(string, *lime.ServerChannel) { atomic.AddInt64(&estab, 1) }
	cfg.Finished = func(string) { atomic.AddInt64(&fin, 1) }
	baseline := len(rig.LimeGoroutines())
	sr, err := rig.StartServer(cfg, nil, []string{flavour}, 0)
	if err != nil {
		r.Verdict = core.Inconclusive
		r.Note = err.Error()
		return
	}
	serving := rig.StableLimeGoroutineCount()

	type script struct {
		name  string
		steps []string // raw lines; special: "@halfclose", "@wait-close"
	}
	auth := func(name string) string {
		return `{"id":"$id","state":"authenticating","from":"` + name + `@verif.local/x","scheme":"guest","authentication":{}}`
	}
	scripts := []script{
		{"garbage-first", []string{"{{{"}},
		{"data-first", []string{`{"id":"1","type":"text/plain","content":"x"}`}},
		{"not-new-first", []string{`{"state":"authenticating","scheme":"guest","authentication":{}}`}},
		{"new-with-id", []string{`{"state":"new","id":"abc"}`}},
		{"garbage-after-new", []string{`{"state":"new"}`, "]]]"}},
		{"data-after-new", []string{`{"state":"new"}`, `{"id":"1","method":"get","uri":"/ping"}`}},
		{"wrong-id", []string{`{"state":"new"}`, `{"id":"nope","state":"authenticating","from":"a@b/c","scheme":"guest","authentication":{}}`}},
		{"unoffered-scheme", []string{`{"state":"new"}`, `{"id":"$id","state":"authenticating","from":"a@b/c","scheme":"key","authentication":{"key":"a2V5"}}`}},
		{"rejected", []string{`{"state":"new"}`, auth("unknown")}},
		{"auth-callback-error", []string{`{"state":"new"}`, auth("autherr")}},
		{"register-callback-error", []string{`{"state":"new"}`, auth("regerr")}},
		{"out-of-order", []string{`{"state":"new"}`, `{"id":"$id","state":"established"}`}},
		{"halfclose-first", []string{"@halfclose"}},
		{"halfclose-after-new", []string{`{"state":"new"}`, "@halfclose"}},
		{"truncated", []string{`{"state":"new"}`, `{"id":"$id","state":"authentic`, "@halfclose"}},
	}
	// a peer whose first envelope is not a new session and which vanishes at once: the handshake ends without an
	// error, without a session and possibly without a connection to refuse it on
	for k := 0; k < 24; k++ {
		scripts = append(scripts, script{fmt.Sprintf("not-new-then-vanish-%02d", k), []string{"@pause", `{"state":"authenticating","scheme":"guest","authentication":{}}`, "@close-now"}})
	}
	var wg sync.WaitGroup
	var mu sync.Mutex
	fps := map[string]bool{}
	for _, sc := range scripts {
		wg.Add(1)
		go func(sc script) {
			defer wg.Done()
			closed, detail := p.runReal(sr, flavour, sc.steps)
			mu.Lock()
			defer mu.Unlock()
			r.Evals++
			fps["real|"+flavour+"|"+sc.name] = true
			if detail == "n/a" {
				return
			}
			r.Count("real_failures_observed", 1)
			if !closed {
				r.Violate("C14/real-not-closed/"+flavour+"/"+sc.name, fmt.Sprintf("%s listener, failing script %s: the client was still waiting on an open connection after 10 s (%s)", flavour, sc.name, detail))
			}
		}(sc)
	}
	wg.Wait()
	for k := range fps {
		r.Fingerprints = append(r.Fingerprints, k)
	}
	// every failed connection's goroutines must be gone
	left := rig.WaitLimeGoroutines(serving, 12*time.Second, "inProcessTransportListener).newClient")
	if len(left) > serving {
		if core.CanaryWorstMS() > 250 {
			r.Verdict = core.Inconclusive
			r.Note = "census under load"
		} else {
			r.Violate("C14/goroutines-left/"+flavour, fmt.Sprintf("%s listener: %d lime-owned goroutines while serving before, %d after the failing connections settled: %v", flavour, serving, len(left), rig.Sites(left)))
		}
	}
	if e, f := atomic.LoadInt64(&estab), atomic.LoadInt64(&fin); e != 0 || f != 0 {
		r.Violate("C14/real-callbacks/"+flavour, fmt.Sprintf("%s listener: Established fired %d times and Finished %d times although no session was established", flavour, e, f))
	}
	_, _ = sr.Close(10 * time.Second)
	_ = baseline
	r.Sample = map[string]interface{}{"flavour": flavour, "scripts": len(scripts), "goroutines_serving": serving, "goroutines_after": len(left)}
}

func (p c14) runReal(sr *rig.ServerRig, flavour string, steps []string) (closed bool, detail string) {
	const bound = 10 * time.Second
	switch flavour {
	case rig.TCP:
		conn, err := net.DialTimeout("tcp", sr.Addr(rig.TCP).String(), 5*time.Second)
		if err != nil {
			return false, "dial: " + err.Error()
		}
		defer conn.Close()
		peer := rig.NewRawPeer(conn)
		id := ""
		for _, st := range steps {
			if st == "@halfclose" {
				_ = conn.(*net.TCPConn).CloseWrite()
				continue
			}
			if st == "@pause" {
				time.Sleep(time.Millisecond)
				continue
			}
			if st == "@close-now" {
				_ = conn.Close()
				return true, "n/a"
			}
			line := replaceID(st, id)
			suffix := "\n"
			if len(st) > 0 && st[len(st)-1] != '}' && st[0] == '{' && st != "{{{" {
				suffix = "" // truncated envelope
			}
			_ = peer.SendRaw([]byte(line + suffix))
			if st == `{"state":"new"}` {
				m, err := peer.Read(5 * time.Second)
				if err != nil {
					return true, "closed after new"
				}
				id, _ = m["id"].(string)
			}
		}
		ok, extra := peer.WaitClosed(bound)
		return ok, fmt.Sprintf("received meanwhile: %v", extra)
	case rig.WS:
		d := websocket.Dialer{Subprotocols: []string{"lime"}, HandshakeTimeout: 5 * time.Second}
		conn, _, err := d.Dial("ws://"+sr.Addr(rig.WS).String(), nil)
		if err != nil {
			return false, "dial: " + err.Error()
		}
		defer conn.Close()
		id := ""
		for _, st := range steps {
			if st == "@halfclose" {
				// websocket has no half-close: send a close frame and keep reading
				_ = conn.WriteControl(websocket.CloseMessage, websocket.FormatCloseMessage(websocket.CloseNormalClosure, ""), time.Now().Add(time.Second))
				continue
			}
			if st == "@pause" {
				time.Sleep(time.Millisecond)
				continue
			}
			if st == "@close-now" {
				_ = conn.Close()
				return true, "n/a"
			}
			_ = conn.WriteMessage(websocket.TextMessage, []byte(replaceID(st, id)))
			if st == `{"state":"new"}` {
				_ = conn.SetReadDeadline(time.Now().Add(5 * time.Second))
				var m map[string]interface{}
				if err := conn.ReadJSON(&m); err != nil {
					return true, "closed after new"
				}
				id, _ = m["id"].(string)
			}
		}
		_ = conn.SetReadDeadline(time.Now().Add(bound))
		var got []string
		for {
			_, b, err := conn.ReadMessage()
			if err != nil {
				if ne, ok := err.(net.Error); ok && ne.Timeout() {
					return false, fmt.Sprintf("received meanwhile: %v", got)
				}
				return true, ""
			}
			got = append(got, string(b))
		}
	case rig.InProc:
		// typed envelopes only
		ctx, cancel := context.WithTimeout(context.Background(), 5*time.Second)
		defer cancel()
		t, err := sr.Dial(ctx, rig.InProc, 4, nil)
		if err != nil {
			return false, "dial: " + err.Error()
		}
		defer t.Close()
		id := ""
		sent := false
		for _, st := range steps {
			if st == "@pause" {
				time.Sleep(time.Millisecond)
				continue
			}
			if st == "@close-now" {
				_ = t.Close()
				return true, "n/a"
			}
			var env interface{}
			switch {
			case st == `{"state":"new"}`:
				env = &lime.Session{State: lime.SessionStateNew}
			case st == "@halfclose" || st[0] != '{' || st == "{{{" || st[len(st)-1] != '}':
				return true, "n/a" // not expressible with typed envelopes
			default:
				d, err := c01typedDecodeAny([]byte(replaceID(st, id)))
				if err != nil {
					return true, "n/a"
				}
				env = d
			}
			if err := sendAny(ctx, t, env); err != nil {
				return true, "send failed: " + err.Error()
			}
			sent = true
			if st == `{"state":"new"}` {
				e, err := t.Receive(ctx)
				if err != nil {
					return true, "closed after new"
				}
				if s, ok := interface{}(e).(*lime.Session); ok {
					id = s.ID
				}
			}
		}
		if !sent {
			return true, "n/a"
		}
		deadline := time.Now().Add(bound)
		for time.Now().Before(deadline) {
			if !t.Connected() {
				return true, ""
			}
			rctx, rc := context.WithTimeout(context.Background(), 100*time.Millisecond)
			_, err := t.Receive(rctx)
			rc()
			if err != nil && !t.Connected() {
				return true, ""
			}
		}
		return false, "in-process transport still connected"
	}
	return true, "n/a"
}

func replaceID(s, id string) string {
	out := ""
	for i := 0; i < len(s); i++ {
		if i+3 <= len(s) && s[i:i+3] == "$id" {
			out += id
			i += 2
			continue
		}
		out += string(s[i])
	}
	return out
}
