package props

import "encoding/json"

func jsonMarshal(v interface{}) ([]byte, error)   { return json.Marshal(v) }
func jsonUnmarshal(b []byte, v interface{}) error { return json.Unmarshal(b, v) }
