package props

import (
	"encoding/json"

	"verif/harness/internal/faultconn"
)

func jsonMarshal(v interface{}) ([]byte, error)   { return json.Marshal(v) }
func jsonUnmarshal(b []byte, v interface{}) error { return json.Unmarshal(b, v) }

func faultconnOpts() faultconn.Options { return faultconn.Options{} }
