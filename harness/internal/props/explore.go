package props

import (
	"encoding/json"
	"fmt"
	"os"
	"runtime"
	"strings"
	"time"

	"verif/harness/internal/core"
	"verif/harness/internal/hs"
	"verif/harness/internal/rig"
)

// hsConfigs returns the server configuration lattice for a tier ("quick": a representative subset).
func hsConfigs(tier string) []hs.Config {
	encs := [][]string{{"none"}, {"none", "tls"}, {"tls", "none"}, {"tls"}}
	comps := [][]string{{"none"}, {"none", "gzip"}}
	schemes := [][]string{{"guest"}, {"plain"}, {"guest", "plain", "key"}, {"transport"}, {"external", "key"}}
	var out []hs.Config
	add := func(c hs.Config) {
		c.Name = fmt.Sprintf("cfg%02d", len(out))
		out = append(out, c)
	}
	if tier != "thorough" {
		add(hs.Config{Comp: comps[0], Enc: encs[0], Schemes: schemes[2], TLSCapable: true, AuthSource: "tape", Tape: []string{"member"}, Register: "assign"})
		add(hs.Config{Comp: comps[0], Enc: encs[1], Schemes: schemes[1], TLSCapable: true, AuthSource: "tape", Tape: []string{"roundtrip", "member"}, Register: "echo"})
		add(hs.Config{Comp: comps[1], Enc: encs[3], Schemes: schemes[2], TLSCapable: true, AuthSource: "builder", Register: "echo"})
		add(hs.Config{Comp: comps[0], Enc: encs[2], Schemes: schemes[0], TLSCapable: false, AuthSource: "tape", Tape: []string{"norole"}, Register: "echo"})
		add(hs.Config{Comp: comps[0], Enc: encs[0], Schemes: schemes[2], TLSCapable: true, AuthSource: "builder-noauth", Register: "echo"})
		add(hs.Config{Comp: comps[0], Enc: encs[0], Schemes: schemes[0], TLSCapable: true, AuthSource: "tape", Tape: []string{"roundtrip-norole", "member"}, Register: "echo"})
		add(hs.Config{Comp: comps[0], Enc: encs[1], Schemes: schemes[4], TLSCapable: true, AuthSource: "tape", Tape: []string{"error"}, Register: "echo"})
		add(hs.Config{Comp: comps[0], Enc: encs[0], Schemes: schemes[3], TLSCapable: true, AuthSource: "tape", Tape: []string{"authority"}, Register: "error"})
		add(hs.Config{Comp: comps[0], Enc: encs[0], Schemes: schemes[0], TLSCapable: true, AuthSource: "tape", Tape: []string{"member+cut"}, Register: "echo"})
		add(hs.Config{Comp: comps[0], Enc: encs[1], Schemes: schemes[0], TLSCapable: true, AuthSource: "tape", Tape: []string{"member"}, Register: "echo", TLSVia: "getconfig"})
		add(hs.Config{Comp: comps[0], Enc: encs[0], Schemes: schemes[0], TLSCapable: true, AuthSource: "tape", Tape: []string{"unknown+cut"}, Register: "echo"})
		// a client that keeps talking cleartext after tls was confirmed: the server's TLS handshake fails
		add(hs.Config{Comp: comps[0], Enc: encs[1], Schemes: schemes[0], TLSCapable: true, AuthSource: "tape", Tape: []string{"member"}, Register: "echo", ClientSkipsTLS: true})
		return out
	}
	tapes := [][]string{{"member"}, {"roundtrip", "member"}, {"unknown"}, {"roundtrip", "roundtrip-norole", "authority"}, {"norole"}, {"error"}, {"roundtrip", "unknown"}, {"member+cut"}, {"roundtrip", "member+cut"}, {"unknown+cut"}}
	n := 0
	for ei, e := range encs {
		for ci, c := range comps {
			for si, s := range schemes {
				for _, capable := range []bool{true, false} {
					n++
					// authenticator source and tape rotate so that the product stays at 80 configurations
					src := []string{"tape", "tape", "builder", "tape", "builder-noauth"}[(ei+ci+si+n)%5]
					reg := []string{"echo", "assign", "echo", "error", "echo", "assign"}[(ei*3+si+n)%6]
					add(hs.Config{Comp: c, Enc: e, Schemes: s, TLSCapable: capable, AuthSource: src, Tape: tapes[(n+si)%len(tapes)], Register: reg})
				}
			}
		}
	}
	return out
}

type exploreStats struct {
	runs, open, established, closedByServer int
}

// explore runs a pruned breadth-first enumeration of client scripts up to depth, then seeded random walks.
// each is called for every trace.
func explore(ex *hs.Explorer, depth int, frontierCap int, walks int, seed uint64, each func(tr *hs.Trace, v *hs.Verdict) bool) {
	alpha := hs.Alphabet()
	rng := core.NewRng(seed)
	pipePairs := [][2]string{{"new", "auth:id:guest-uuid"}, {"new", "msg"}, {"auth:id:guest-uuid", "msg"}, {"auth:id:plain-good", "state:finishing"}, {"neg:id:none:none", "auth:id:guest-uuid"}, {"msg", "req"}, {"neg:id:none:tls", "auth:id:plain-good"}}
	frontier := [][]string{{}}
	estab := map[string]bool{}
	for d := 1; d <= depth; d++ {
		var next [][]string
		for _, p := range frontier {
			for _, sym := range alpha {
				if estab[strings.Join(p, " ")] && (sym == "halfclose" || sym == "trunc" || sym == "pipeline") {
					// an EOF inside an established session is an unrequested loss of the session, which is C19's
					// subject, not the handshake's
					continue
				}
				var scripts [][]string
				if sym == "pipeline" {
					for _, pp := range pipePairs {
						scripts = append(scripts, append(append([]string{}, p...), "pipeline", pp[0], pp[1]))
					}
				} else {
					scripts = append(scripts, append(append([]string{}, p...), sym))
				}
				for _, sc := range scripts {
					tr := ex.Run(sc)
					v := hs.Classify(tr)
					if !each(tr, v) {
						return
					}
					if tr.OpenAtEnd && !tr.Stuck && sym != "pipeline" && sym != "halfclose" {
						next = append(next, sc)
						if v.Established {
							estab[strings.Join(sc, " ")] = true
						}
					}
				}
			}
		}
		// cap the frontier deterministically: keep the first ones and a seeded sample of the rest
		if len(next) > frontierCap {
			keep := next[:frontierCap/2]
			rest := next[frontierCap/2:]
			perm := rng.Perm(len(rest))
			for _, i := range perm[:frontierCap-frontierCap/2] {
				keep = append(keep, rest[i])
			}
			next = keep
		}
		frontier = next
		if len(frontier) == 0 {
			break
		}
	}
	// random walks: start from a frontier prefix (or empty) and append random symbols, biased towards plausible ones
	plausible := []string{"new", "neg:id:none:none", "neg:id:none:tls", "auth:id:guest-uuid", "auth:id:plain-good", "auth:id:key", "auth:id:external", "auth:id:plain-bad", "msg", "req", "state:finishing"}
	for w := 0; w < walks; w++ {
		var sc []string
		if len(frontier) > 0 && rng.Chance(1, 2) {
			sc = append(sc, frontier[rng.Intn(len(frontier))]...)
		} else {
			sc = append(sc, "new")
		}
		n := 1 + rng.Intn(5)
		for k := 0; k < n; k++ {
			if rng.Chance(3, 5) {
				sc = append(sc, plausible[rng.Intn(len(plausible))])
			} else {
				s := alpha[rng.Intn(len(alpha))]
				if s == "halfclose" || s == "trunc" || s == "disconnect" {
					// EOF-inducing symbols end a walk
					sc = append(sc, s)
					break
				}
				if s == "pipeline" {
					pp := pipePairs[rng.Intn(len(pipePairs))]
					sc = append(sc, "pipeline", pp[0], pp[1])
				} else {
					sc = append(sc, s)
				}
			}
		}
		tr := ex.Run(sc)
		if !each(tr, hs.Classify(tr)) {
			return
		}
	}
}

// runExplorerCase is shared by C03, C06 (receive direction), C07, C09, C10 and C14: same engine, each property
// keeps only the issues its own statement covers.
func runExplorerCase(r *core.Result, props []string, c core.Case) {
	var cfg hs.Config
	b, _ := json.Marshal(c.P["config"])
	_ = json.Unmarshal(b, &cfg)
	ex, err := hs.NewExplorer(cfg)
	if err != nil {
		r.Verdict = core.Inconclusive
		r.Note = err.Error()
		return
	}
	defer ex.Close()
	// what the idle server runs: thousands of connections later (most of them failed handshakes) nothing may have
	// been added to it
	servingG := rig.StableLimeGoroutineCount()
	want := map[string]bool{}
	for _, p := range props {
		want[p] = true
	}
	fps := map[string]bool{}
	prefix := props[0]
	sampled := 0
	slow := 0
	explore(ex, c.Int("depth", 3), c.Int("frontier", 24), c.Int("walks", 0), c.Seed, func(tr *hs.Trace, v *hs.Verdict) (cont bool) {
		defer func() {
			// a tree on which runs keep hitting the watchdogs is already refuted: stop exploring this configuration
			if tr.Stuck || tr.SettledLate {
				slow++
			}
			cont = slow < 6 && len(r.Findings) < 40
		}()
		r.Evals++
		r.Count("runs", 1)
		r.Count("traces_validated_against_impl", 1)
		if v.ReachedNeg {
			r.Count("reached_negotiation", 1)
		}
		if v.ReachedAuth {
			r.Count("reached_authentication", 1)
		}
		if v.Established {
			r.Count("established", 1)
			if v.Conforming {
				r.Count("established_by_conforming_script", 1)
			}
		}
		if v.TLSUpgraded {
			r.Count("tls_upgrades", 1)
		}
		if v.ViolationAt >= 0 {
			r.Count("scripts_with_client_violation", 1)
		}
		if v.OutsideAt >= 0 {
			r.Count("scripts_with_outside_input", 1)
		}
		if v.Terminal != "" {
			r.Count("terminal_"+v.Terminal, 1)
		}
		if tr.ClosedAfter >= 0 {
			r.Count("closed_by_server", 1)
		}
		r.Count("auth_rounds", v.AuthRounds)
		for _, e := range tr.Events {
			switch e.T {
			case "auth", "auth-builder":
				r.Count("authenticate_invocations", 1)
			case "register":
				r.Count("register_invocations", 1)
			case "state":
				r.Count("state_transitions", 1)
			case "handler":
				r.Count("handler_invocations", 1)
			}
		}
		if v.FailureClass != "" {
			r.AddSet("failure_classes", strings.Split(v.FailureClass, "@")[0])
		}
		if v.ReachedAuth || v.ReachedNeg || v.ViolationAt >= 0 {
			fps[cfg.Name+"|"+strings.Join(tr.Script, " ")] = true
		}
		if tr.Stuck && v.Established {
			// EOF inside an established session: outside the handshake (see C19); recorded only
			r.Count("stuck_after_established", 1)
		} else if tr.Stuck {
			if core.CanaryWorstMS() > 250 {
				r.Count("inconclusive_stuck_under_load", 1)
			} else {
				r.Violate(prefix+"/stuck", fmt.Sprintf("config %s script %v: the server neither closed the connection nor waited for input within 4 s; events %s", cfg.Key(), tr.Script, evSummary(tr)))
			}
		}
		if tr.SettledLate {
			if core.CanaryWorstMS() > 250 {
				r.Count("inconclusive_unsettled_under_load", 1)
			} else if want["C14"] {
				last := tr.Events[len(tr.Events)-1]
				r.Violate("C14/not-released-after-client-left", fmt.Sprintf("config %s script %v: after the client closed its end the server did not finish with the connection within 3 s (%s)", cfg.Key(), tr.Script, last.Detail))
			}
		}
		for _, is := range v.Issues {
			if want[is.Prop] {
				r.Violate(is.Key, fmt.Sprintf("config{%s} script %v labels [%s]: %s", cfg.Key(), tr.Script, v.LabelSeq, is.Detail))
				if len(r.Log) < 60 {
					r.Logf("--- %s script %v", is.Key, tr.Script)
					for _, e := range tr.Events {
						eb, _ := json.Marshal(e)
						r.Logf("%s", eb)
					}
				}
			}
		}
		if sampled < 2 && v.Established && len(tr.Script) >= 2 {
			sampled++
			r.Sample = map[string]interface{}{"config": cfg, "script": tr.Script, "labels": v.Labels, "events": evSummary(tr)}
		}
		return true
	})
	if want["C14"] && len(r.Findings) == 0 {
		if left := rig.WaitLimeGoroutines(servingG, 10*time.Second); len(left) > servingG {
			if core.CanaryWorstMS() > 250 {
				r.Count("inconclusive_census_under_load", 1)
			} else {
				r.Violate("C14/goroutines-left/explorer", fmt.Sprintf("config %s: %d lime-owned goroutines with the server idle before the runs, %d after %d connections had come and gone (server still serving): %v", cfg.Key(), servingG, len(left), r.Evals, rig.Sites(left)))
			}
		} else {
			r.Count("census_clean_after_runs", 1)
		}
	}
	estTotal := ex.TotalEstablished()
	r.Count("established_callbacks_distinct_sessions", estTotal)
	for k := range fps {
		r.Fingerprints = append(r.Fingerprints, k)
	}
	_ = os.Stderr
	runtime.GC()
}

func evSummary(tr *hs.Trace) string {
	var parts []string
	for _, e := range tr.Events {
		switch e.T {
		case "send":
			parts = append(parts, fmt.Sprintf("#%d>%s", e.Step, e.Sym))
		case "recv":
			if e.Env != nil {
				s := fmt.Sprint(e.Env["state"])
				if e.OverTLS {
					s += "(tls)"
				}
				parts = append(parts, "<"+s)
			} else {
				parts = append(parts, "<raw")
			}
		case "auth", "auth-builder":
			parts = append(parts, fmt.Sprintf("auth[%s %s enc=%s]", e.AuthType, e.Outcome, e.Enc))
		case "register":
			parts = append(parts, fmt.Sprintf("register[%s->%s]", e.Candidate, e.Node))
		case "state":
			parts = append(parts, fmt.Sprintf("state[%s>%s]", e.From, e.To))
		default:
			parts = append(parts, e.T)
		}
	}
	s := strings.Join(parts, " ")
	if len(s) > 900 {
		s = s[:900] + "…"
	}
	return s
}

func explorerCases(prop, tier string, seed uint64, cfgs []hs.Config) []core.Case {
	var cases []core.Case
	depth, frontier, walks := 4, 20, 200
	if tier == "thorough" {
		depth, frontier, walks = 5, 40, 1000
	}
	for i, cfg := range cfgs {
		cases = append(cases, core.Case{ID: fmt.Sprintf("%s/explore/%s", prop, cfg.Name), Engine: "explore", Seed: core.Derive(seed, uint64(i), 77).Uint64(),
			P: map[string]interface{}{"config": cfg, "depth": depth, "frontier": frontier, "walks": walks}, TimeoutS: 900})
	}
	return cases
}
