package props

import (
	"bytes"
	"context"
	"crypto/tls"
	"encoding/json"
	"fmt"
	"net"
	"strings"
	"sync"
	"time"

	lime "github.com/takenet/lime-go"

	"verif/harness/internal/core"
	"verif/harness/internal/faultconn"
	"verif/harness/internal/hs"
	"verif/harness/internal/rig"
)

// C09 — Only offered transport options are negotiated and both ends apply them.
type c09 struct{}

func init() { core.Register(c09{}) }

func (c09) ID() string                  { return "C09" }
func (c09) Level() string               { return "exploration" }
func (c09) ChildParallel() int          { return 1 }
func (c09) Exhaustive(tier string) bool { return false }
func (c09) Rule() string {
	return "Three pairings. (1) scripted client <-> library server: handshake explorer (see C07's rule) over the whole configuration lattice; oracle: offer = configured ∩ supported in configured order, confirmation only for pairs in the offer (anything else => failed), after a tls confirmation only TLS records on the wire, Encryption()/Compression() sampled inside Authenticate and at establishment equal the confirmed pair. " +
		"(2) library client <-> library server over a tapped in-memory connection: EncryptOpts x CompOpts x TLS capability x client selection {each offered, unoffered, unknown string, empty}; both ends' options are sampled when credentials are produced/checked and at establishment and must agree; the secret credential must never cross the wire in cleartext after a tls confirmation. " +
		"(3) library client <-> scripted server that confirms what was requested or something else: the client must apply the confirmed pair before sending credentials. " +
		"(4) one Server with in-process, TCP, WebSocket and secure WebSocket listeners: sessions over transports of different capability are interleaved and the offer seen by a raw TCP client must stay configured ∩ supported every time. Non-trivial = runs in which negotiation took place; distinct = (pairing, configuration, selection / script)."
}
func (c09) Assumptions() []string {
	return []string{"TLS record framing recognised structurally (content type 20-23, version 3.x); crypto/tls trusted"}
}
func (c09) Floors(tier string) map[string]int {
	return map[string]int{"runs": 1500, "reached_negotiation": 500, "tls_upgrades": 50, "pair_runs": 40, "pair_negotiated": 20, "scripted_server_runs": 8, "mixed_offers_checked": 8}
}

func (c09) Plan(tier string, seed uint64) []core.Case {
	cases := explorerCases("C09", tier, seed, hsConfigs(tier))
	cases = append(cases, core.Case{ID: "C09/pairs", Engine: "pairs", Seed: seed, TimeoutS: 300})
	cases = append(cases, core.Case{ID: "C09/scripted-server", Engine: "scripted-server", Seed: seed, TimeoutS: 120})
	cases = append(cases, core.Case{ID: "C09/mixed/tls-first", Engine: "mixed", Seed: seed, P: map[string]interface{}{"enc": []string{"tls", "none"}}, TimeoutS: 120})
	cases = append(cases, core.Case{ID: "C09/mixed/none-first", Engine: "mixed", Seed: seed, P: map[string]interface{}{"enc": []string{"none", "tls"}}, TimeoutS: 120})
	return cases
}

func (p c09) Run(c core.Case) core.Result {
	var r core.Result
	r.Verdict = core.Held
	switch c.Engine {
	case "pairs":
		p.pairs(&r, c)
	case "scripted-server":
		p.scriptedServer(&r, c)
	case "mixed":
		p.mixed(&r, c)
	default:
		runExplorerCase(&r, []string{"C09"}, c)
	}
	return r
}

const c09secret = "c09-s3cr3t-passw0rd"

// pairs: real ClientChannel against the real Server over a tapped faultconn.
func (p c09) pairs(r *core.Result, c core.Case) {
	fps := map[string]bool{}
	encLists := [][]string{{"none"}, {"none", "tls"}, {"tls", "none"}, {"tls"}}
	compLists := [][]string{{"none"}, {"none", "gzip"}}
	selections := []string{"none", "tls", "zzz", ""}
	for _, encs := range encLists {
		for _, comps := range compLists {
			for _, capable := range []bool{true, false} {
				for _, sel := range selections {
					p.onePair(r, encs, comps, capable, sel, fps)
				}
			}
		}
	}
	for k := range fps {
		r.Fingerprints = append(r.Fingerprints, k)
	}
}

func (p c09) onePair(r *core.Result, encs, comps []string, capable bool, sel string, fps map[string]bool) {
	var mu sync.Mutex
	var srvEncAtAuth, srvEncAtEst, srvCompAtAuth string
	var srvT lime.Transport
	cfg := rig.DefaultServerConfig()
	cfg.SchemeOpts = []lime.AuthenticationScheme{lime.AuthenticationSchemePlain}
	cfg.EncryptOpts = nil
	for _, e := range encs {
		cfg.EncryptOpts = append(cfg.EncryptOpts, lime.SessionEncryption(e))
	}
	cfg.CompOpts = nil
	for _, x := range comps {
		cfg.CompOpts = append(cfg.CompOpts, lime.SessionCompression(x))
	}
	cfg.Authenticate = func(ctx context.Context, id lime.Identity, a lime.Authentication) (*lime.AuthenticationResult, error) {
		mu.Lock()
		if srvT != nil {
			srvEncAtAuth, srvCompAtAuth = string(srvT.Encryption()), string(srvT.Compression())
		}
		mu.Unlock()
		return lime.MemberAuthenticationResult(), nil
	}
	estDone := make(chan struct{}, 1)
	cfg.Established = func(id string, sc *lime.ServerChannel) {
		mu.Lock()
		srvEncAtEst = string(sc.VerifTransport().Encryption())
		mu.Unlock()
		select {
		case estDone <- struct{}{}:
		default:
		}
	}
	lst := hs.NewFaultListener()
	srv := lime.NewServer(cfg, &lime.EnvelopeMux{}, lst.Bound())
	serveErr := make(chan error, 1)
	go func() { serveErr <- srv.ListenAndServe() }()
	defer func() {
		_ = srv.Close()
		select {
		case <-serveErr:
		case <-time.After(5 * time.Second):
		}
	}()
	ca, cb := faultconn.Pair(faultconn.Options{})
	scfg := &lime.TCPConfig{}
	ccfg := &lime.TCPConfig{}
	if capable {
		scfg.TLSConfig = rig.ServerTLS()
	}
	ccfg.TLSConfig = rig.ClientTLS()
	st := lime.VerifNewTCPTransport(cb, true, scfg)
	mu.Lock()
	srvT = st
	mu.Unlock()
	ct := lime.VerifNewTCPTransport(ca, false, ccfg)
	if !lst.Push(st) {
		r.Verdict = core.Inconclusive
		r.Note = "listener did not accept"
		return
	}
	cc := lime.NewClientChannel(ct, 4)
	var cliEncAtAuth, cliCompAtAuth string
	var offered []lime.SessionEncryption
	negotiated := false
	ctx, cancel := context.WithTimeout(context.Background(), 15*time.Second)
	ses, err := cc.EstablishSession(ctx,
		func(o []lime.SessionCompression) lime.SessionCompression { return lime.SessionCompressionNone },
		func(o []lime.SessionEncryption) lime.SessionEncryption {
			offered = o
			negotiated = true
			return lime.SessionEncryption(sel)
		},
		lime.Identity{Name: "pair", Domain: "verif.local"},
		func(s []lime.AuthenticationScheme, rt lime.Authentication) lime.Authentication {
			cliEncAtAuth, cliCompAtAuth = string(ct.Encryption()), string(ct.Compression())
			a := &lime.PlainAuthentication{}
			a.SetPasswordAsBase64(c09secret)
			return a
		}, "i")
	cancel()
	tag := fmt.Sprintf("enc=%v comp=%v tls-capable=%v client-selects=%q", encs, comps, capable, sel)
	r.Evals++
	r.Count("pair_runs", 1)
	if negotiated {
		r.Count("pair_negotiated", 1)
		fps["pair|"+tag] = true
	}
	established := err == nil && ses != nil && ses.State == lime.SessionStateEstablished
	offerE := []string{}
	for _, e := range encs {
		if e == "none" || e == "tls" {
			offerE = append(offerE, e)
		}
	}
	if negotiated {
		var got []string
		for _, o := range offered {
			got = append(got, string(o))
		}
		if strings.Join(got, ",") != strings.Join(offerE, ",") {
			r.Violate("C09/offer", fmt.Sprintf("%s: the client was offered %v, expected %v", tag, got, offerE))
		}
		inOffer := false
		for _, e := range offerE {
			if e == sel {
				inOffer = true
			}
		}
		if !inOffer && established {
			r.Violate("C09/confirmed-unoffered", fmt.Sprintf("%s: the client selected an option outside the offer %v and the session was established", tag, offerE))
		}
	}
	if established {
		select {
		case <-estDone:
		case <-time.After(5 * time.Second):
		}
		mu.Lock()
		sa, se, sc := srvEncAtAuth, srvEncAtEst, srvCompAtAuth
		mu.Unlock()
		r.Count("pair_established", 1)
		want := "none"
		if negotiated {
			want = sel
		}
		if string(ct.Encryption()) != se || cliEncAtAuth != sa {
			r.Violate("C09/ends-disagree", fmt.Sprintf("%s: client encryption at authentication/establishment %q/%q, server %q/%q", tag, cliEncAtAuth, ct.Encryption(), sa, se))
		}
		if cliCompAtAuth != sc {
			r.Violate("C09/ends-disagree-compression", fmt.Sprintf("%s: client compression %q, server %q", tag, cliCompAtAuth, sc))
		}
		if sa != want || cliEncAtAuth != want {
			r.Violate("C09/encryption-at-authenticate", fmt.Sprintf("%s: confirmed encryption %q but at authentication the client had %q and the server %q", tag, want, cliEncAtAuth, sa))
		}
		if want == "tls" {
			w1, w2 := ca.WireOut(), ca.WireIn()
			b64 := []byte("YzA5LXMzY3IzdC1wYXNzdzByZA")
			if bytes.Contains(w1, b64) || bytes.Contains(w1, []byte(c09secret)) || bytes.Contains(w2, b64) {
				r.Violate("C09/credentials-in-cleartext", fmt.Sprintf("%s: tls was negotiated but the password crossed the wire in cleartext", tag))
			}
			if bytes.Contains(w1, []byte(`"authenticating"`)) && bytes.Contains(w1, []byte(`"password"`)) {
				r.Violate("C09/credentials-in-cleartext", fmt.Sprintf("%s: tls was negotiated but the authenticating envelope with credentials is readable on the wire", tag))
			}
			r.Count("pair_tls", 1)
		}
		fctx, fc := context.WithTimeout(context.Background(), 10*time.Second)
		_, _ = cc.FinishSession(fctx)
		fc()
	}
	_ = cc.Close()
	if r.Sample == nil && negotiated && established {
		r.Sample = map[string]interface{}{"pairing": "library client <-> library server", "config": tag, "client_enc_at_auth": cliEncAtAuth, "server_enc_at_auth": srvEncAtAuth}
	}
}

// scriptedServer: the library client against a raw server that confirms what it likes.
func (p c09) scriptedServer(r *core.Result, c core.Case) {
	fps := map[string]bool{}
	type variant struct {
		request, confirm string
	}
	for _, v := range []variant{{"none", "none"}, {"tls", "tls"}, {"none", "tls"}, {"tls", "none"}} {
		for _, withComp := range []bool{true, false} {
			ca, cb := faultconn.Pair(faultconn.Options{})
			ct := lime.VerifNewTCPTransport(ca, false, &lime.TCPConfig{TLSConfig: rig.ClientTLS()})
			cc := lime.NewClientChannel(ct, 4)
			peer := rig.NewRawPeer(cb)
			var cliEncAtAuth string
			done := make(chan error, 1)
			go func() {
				ctx, cancel := context.WithTimeout(context.Background(), 10*time.Second)
				defer cancel()
				_, err := cc.EstablishSession(ctx, lime.NoneCompressionSelector,
					func(o []lime.SessionEncryption) lime.SessionEncryption { return lime.SessionEncryption(v.request) },
					lime.Identity{Name: "u", Domain: "d"},
					func(s []lime.AuthenticationScheme, rt lime.Authentication) lime.Authentication {
						cliEncAtAuth = string(ct.Encryption())
						a := &lime.PlainAuthentication{}
						a.SetPasswordAsBase64(c09secret)
						return a
					}, "i")
				done <- err
			}()
			tag := fmt.Sprintf("client requests %s, server confirms %s (compression echoed: %v)", v.request, v.confirm, withComp)
			r.Evals++
			r.Count("scripted_server_runs", 1)
			fps["scripted-server|"+tag] = true
			func() {
				defer func() { _ = cb.Close(); _ = cc.Close() }()
				if _, err := peer.Read(5 * time.Second); err != nil {
					return
				}
				_ = peer.SendJSON(map[string]interface{}{"id": "sid-1", "from": "srv@d/i", "state": "negotiating", "encryptionOptions": []string{"none", "tls"}, "compressionOptions": []string{"none"}})
				m, err := peer.Read(5 * time.Second)
				if err != nil {
					return
				}
				if m["encryption"] != v.request {
					r.Violate("C09/client-selection-not-sent", fmt.Sprintf("%s: client sent %v", tag, m))
				}
				conf := map[string]interface{}{"id": "sid-1", "from": "srv@d/i", "state": "negotiating", "encryption": v.confirm}
				if withComp {
					conf["compression"] = "none"
				}
				_ = peer.SendJSON(conf)
				var conn net.Conn = cb
				if v.confirm == "tls" {
					tc := tls.Server(cb, rig.ServerTLS())
					_ = tc.SetDeadline(time.Now().Add(5 * time.Second))
					if err := tc.Handshake(); err != nil {
						r.Violate("C09/client-did-not-apply-confirmed", fmt.Sprintf("%s: the server confirmed tls but the client did not start a TLS handshake: %v; client bytes after the confirmation: %q", tag, err, clipb(cb.WireIn(), 200)))
						return
					}
					_ = tc.SetDeadline(time.Time{})
					conn = tc
					peer.Rebind(conn)
				}
				_ = peer.SendJSON(map[string]interface{}{"id": "sid-1", "from": "srv@d/i", "state": "authenticating", "schemeOptions": []string{"plain"}})
				m, err = peer.Read(5 * time.Second)
				if err != nil {
					if v.confirm == "none" {
						r.Violate("C09/client-did-not-apply-confirmed", fmt.Sprintf("%s: the server confirmed none but the client's next bytes are not a cleartext envelope: %v; bytes %q", tag, err, clipb(cb.WireIn(), 200)))
					}
					return
				}
				if m["state"] != "authenticating" || m["authentication"] == nil {
					r.Violate("C09/credentials-not-sent", fmt.Sprintf("%s: expected credentials, got %v", tag, m))
				}
				if cliEncAtAuth != v.confirm {
					r.Violate("C09/client-did-not-apply-confirmed", fmt.Sprintf("%s: when producing credentials the client transport reported encryption %q", tag, cliEncAtAuth))
				}
				_ = peer.SendJSON(map[string]interface{}{"id": "sid-1", "from": "srv@d/i", "to": "u@d/i", "state": "established"})
				select {
				case err := <-done:
					if err != nil {
						r.Violate("C09/client-establish-failed", fmt.Sprintf("%s: %v", tag, err))
					} else if string(ct.Encryption()) != v.confirm {
						r.Violate("C09/client-did-not-apply-confirmed", fmt.Sprintf("%s: established with client encryption %q", tag, ct.Encryption()))
					}
				case <-time.After(5 * time.Second):
				}
			}()
		}
	}
	for k := range fps {
		r.Fingerprints = append(r.Fingerprints, k)
	}
}

// mixed: sessions over transports of different capability on one server; the TCP offer must never change.
func (p c09) mixed(r *core.Result, c core.Case) {
	encs := c.Strs("enc")
	cfg := rig.DefaultServerConfig()
	cfg.EncryptOpts = nil
	for _, e := range encs {
		cfg.EncryptOpts = append(cfg.EncryptOpts, lime.SessionEncryption(e))
	}
	cfg.CompOpts = []lime.SessionCompression{lime.SessionCompressionNone}
	sr, err := rig.StartServer(cfg, nil, []string{rig.InProc, rig.TCP, rig.WS, rig.WSS}, 0)
	if err != nil {
		r.Verdict = core.Inconclusive
		r.Note = err.Error()
		return
	}
	defer sr.Close(10 * time.Second)
	r.NonTrivial = true
	r.Fingerprint = "mixed|" + strings.Join(encs, ",")
	checkOffer := func(after string) {
		conn, err := net.DialTimeout("tcp", sr.Addr(rig.TCP).String(), 5*time.Second)
		if err != nil {
			r.Violate("C09/mixed/dial", err.Error())
			return
		}
		defer conn.Close()
		peer := rig.NewRawPeer(conn)
		_ = peer.SendJSON(map[string]interface{}{"state": "new"})
		m, err := peer.Read(5 * time.Second)
		r.Evals++
		r.Count("mixed_offers_checked", 1)
		if err != nil {
			r.Violate("C09/mixed/no-offer", fmt.Sprintf("after %s: %v", after, err))
			return
		}
		got, _ := json.Marshal(m["encryptionOptions"])
		want, _ := json.Marshal(encs)
		if string(got) != string(want) {
			r.Violate("C09/offer", fmt.Sprintf("server configured with EncryptOpts %v: after %s a TCP client is offered %s (%v)", encs, after, got, m))
		}
	}
	checkOffer("start")
	for i, f := range []string{rig.InProc, rig.WS, rig.WSS, rig.TLS, rig.InProc, rig.WSS} {
		ctx, cancel := context.WithTimeout(context.Background(), 15*time.Second)
		cc, _, err := sr.EstablishClient(ctx, f, 4, 4, lime.Identity{Name: fmt.Sprintf("m%d", i), Domain: "verif.local"}, "i")
		if err != nil {
			r.Logf("session over %s failed: %v", f, err)
		} else {
			r.Count("mixed_sessions", 1)
			_, _ = cc.FinishSession(ctx)
			_ = cc.Close()
		}
		cancel()
		checkOffer("a session over " + f)
	}
	if r.Sample == nil {
		r.Sample = map[string]interface{}{"pairing": "mixed transports on one server", "encrypt_opts": encs}
	}
}

func clipb(b []byte, n int) []byte {
	if len(b) > n {
		return b[:n]
	}
	return b
}
