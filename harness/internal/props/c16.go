package props

import (
	"context"
	"fmt"
	"io"
	"net"
	"strings"
	"time"

	lime "github.com/takenet/lime-go"

	"verif/harness/internal/core"
	"verif/harness/internal/faultconn"
	"verif/harness/internal/rig"
)

// C16 — Inbound envelope size is bounded by the read limit.
type c16 struct{}

func init() { core.Register(c16{}) }

func (c16) ID() string                  { return "C16" }
func (c16) Level() string               { return "fault_enumeration" }
func (c16) ChildParallel() int          { return 1 }
func (c16) Exhaustive(tier string) bool { return true }
func (c16) Rule() string {
	return "real tcpTransport (verif constructor hook, and the real listener/dialer over loopback) fed by a raw peer through a byte-counting in-memory connection. " +
		"Enumerated completely (both tiers): limits {64,256,1024,4096,65536} x framed envelope sizes {1cls: small, L/2, L-1, L, L+1, L+200, 2L-1, 2L, 2L+1, 4L, 64L} x position {first, after 1 small, coalesced with a predecessor, after many small, after one of framed size L, after a predecessor whose newline is still unread, primed: a near-limit predecessor followed by a tiny envelope coalesced with the target; the last two also with a TraceWriter configured} x fragmentation {1 byte, 512-byte reads, whole stream at once, PRNG chunks} (thorough adds more PRNG fragmentations and more predecessors), plus the 8 MiB default limit (accept 8 MiB-δ, reject 17 MiB), plus listener.Accept / DialTcp limits over real loopback. " +
		"'framed size' = JSON value + the newline the library's own sender appends. Monitor: bytes handed to the transport by the connection during each Receive (must be <= limit); framed <= L must be accepted intact (and the stream must stay in sync: a following envelope is received); framed > 2L must be rejected; sizes in (L,2L] are recorded either way. Non-trivial = target size >= L/2; distinct = (limit, size class, position, fragmentation)."
}
func (c16) Assumptions() []string {
	return []string{"consumption is measured at the injected connection (bytes returned by its Read during the Receive call)", "framed size (value + newline) is what 'within the limit' means, as argued in DESIGN.md C16"}
}
func (c16) Floors(tier string) map[string]int {
	return map[string]int{"runs": 1000, "accepted_within_limit": 300, "rejected_over_2x": 200, "receives_measured": 3000, "loopback_runs": 4}
}

var c16limits = []int{64, 256, 1024, 4096, 65536}
var c16positions = []string{"first", "after1", "coalesced", "aftermany", "afterL", "unreadnl", "primed", "primed-trace", "after1-trace", "afterinvalid"}
var c16frags = []string{"1", "512", "all", "rand"}

func (c16) Plan(tier string, seed uint64) []core.Case {
	var cases []core.Case
	for _, l := range c16limits {
		for _, pos := range c16positions {
			extra := 0
			if tier == "thorough" {
				extra = 30
			}
			cases = append(cases, core.Case{ID: fmt.Sprintf("C16/L%d/%s", l, pos), Engine: "matrix", Seed: core.Derive(seed, uint64(l), uint64(len(pos))).Uint64(), P: map[string]interface{}{"limit": l, "pos": pos, "extra_rand": extra}, TimeoutS: 600})
		}
	}
	cases = append(cases, core.Case{ID: "C16/default", Engine: "default", Seed: seed, TimeoutS: 600})
	cases = append(cases, core.Case{ID: "C16/loopback", Engine: "loopback", Seed: seed, TimeoutS: 120})
	return cases
}

// c16msg builds a message encoding whose JSON value has exactly n bytes (n >= 52).
func c16msg(id string, n int) []byte {
	base := fmt.Sprintf(`{"id":"%s","type":"text/plain","content":""}`, id)
	pad := n - len(base)
	if pad < 0 {
		return nil
	}
	return []byte(fmt.Sprintf(`{"id":"%s","type":"text/plain","content":"%s"}`, id, strings.Repeat("p", pad)))
}

const c16minValue = 48

// c16trace is a TraceWriter that discards what it is given (the option must not weaken the limit).
type c16trace struct{ s, r io.Writer }

func (t *c16trace) SendWriter() *io.Writer    { return &t.s }
func (t *c16trace) ReceiveWriter() *io.Writer { return &t.r }

func (p c16) Run(c core.Case) core.Result {
	var r core.Result
	r.Verdict = core.Held
	fps := map[string]bool{}
	switch c.Engine {
	case "matrix":
		L := c.Int("limit", 64)
		pos := c.Str("pos", "first")
		rng := core.NewRng(c.Seed)
		sizes := map[string]int{"small": c16minValue + 2, "L/2": L / 2, "L-1": L - 1, "L": L, "L+1": L + 1, "L+200": L + 200, "2L-1": 2*L - 1, "2L": 2 * L, "2L+1": 2*L + 1, "4L": 4 * L, "64L": 64 * L}
		order := []string{"small", "L/2", "L-1", "L", "L+1", "L+200", "2L-1", "2L", "2L+1", "4L", "64L"}
		frags := append([]string{}, c16frags...)
		for i := 0; i < c.Int("extra_rand", 0); i++ {
			frags = append(frags, "rand")
		}
		for _, cls := range order {
			framed := sizes[cls]
			if framed-1 < c16minValue {
				if cls != "small" {
					// the limit is too small for this class to be a valid envelope: use the smallest valid one if it still fits the class meaning
					continue
				}
			}
			for fi, frag := range frags {
				p.one(&r, L, cls, framed, pos, frag, rng.Uint64()+uint64(fi), fps)
			}
		}
	case "default":
		// default limit: 8 MiB. One accept just under, one reject at 17 MiB.
		p.one(&r, 0, "default-accept", int(lime.DefaultReadLimit)-100, "after1", "all", 1, fps)
		p.one(&r, 0, "default-accept", int(lime.DefaultReadLimit)-100, "first", "rand-big", 2, fps)
		p.one(&r, 0, "default-reject", 17*1024*1024, "after1", "all", 3, fps)
	case "loopback":
		p.loopback(&r, fps)
	}
	for k := range fps {
		r.Fingerprints = append(r.Fingerprints, k)
	}
	return r
}

// one run: predecessors according to pos, then the target of the given framed size, then a small follower.
func (p c16) one(r *core.Result, L int, cls string, framed int, pos, frag string, seed uint64, fps map[string]bool) {
	limit := int64(L)
	cfg := &lime.TCPConfig{ReadLimit: limit}
	if strings.HasSuffix(pos, "-trace") {
		cfg.TraceWriter = &c16trace{s: io.Discard, r: io.Discard}
		pos = strings.TrimSuffix(pos, "-trace")
	}
	eff := L
	if L == 0 {
		eff = int(lime.DefaultReadLimit)
		cfg = nil
	}
	tp := rig.NewTransportPair(faultconn.Options{}, nil, cfg)
	tp.CA.SetTap(false)
	defer func() {
		tp.Close()
	}()
	switch frag {
	case "1":
		tp.CB.SetReadPlan(faultconn.ReadPlan{Chunk: 1})
	case "512":
		tp.CB.SetReadPlan(faultconn.ReadPlan{Chunk: 512})
	case "rand":
		tp.CB.SetReadPlan(faultconn.ReadPlan{RandMax: 1 + int(seed%700), Seed: seed})
	case "rand-big":
		tp.CB.SetReadPlan(faultconn.ReadPlan{RandMax: 100000, Seed: seed})
	}
	small := func(i int) []byte { return append(c16msg(fmt.Sprintf("p%d", i), c16minValue+i%3), '\n') }
	var pre [][]byte
	unreadNL := false
	invalidPre := false
	switch pos {
	case "after1":
		pre = append(pre, small(0))
	case "coalesced":
		pre = append(pre, small(0))
	case "aftermany":
		n := 1000
		if eff >= 65536 {
			n = 200
		}
		for i := 0; i < n; i++ {
			pre = append(pre, small(i))
		}
	case "afterL":
		if eff-1 >= c16minValue {
			pre = append(pre, append(c16msg("pL", eff-1), '\n'))
		} else {
			pre = append(pre, small(0))
		}
	case "primed":
		// a predecessor close to the limit grows the decoder's buffer; then a tiny envelope is coalesced with the target
		if eff-1 >= c16minValue {
			pre = append(pre, append(c16msg("pL", eff-2), '\n'))
		}
		pre = append(pre, small(1))
	case "afterinvalid":
		// well-formed JSON objects that are not valid envelopes (a message without its type): each is rejected, and
		// together they exceed the limit - the budget belongs to one envelope, accepted or not
		sz := eff / 3
		if sz < c16minValue {
			sz = c16minValue
		}
		for i := 0; i < 5; i++ {
			b := []byte(fmt.Sprintf(`{"id":"inv%d","content":"%s"}`, i, strings.Repeat("q", sz-28)))
			pre = append(pre, append(b, '\n'))
		}
		invalidPre = true
	case "unreadnl":
		// predecessor value is written without its newline; the newline arrives together with the target
		pre = append(pre, c16msg("pn", c16minValue+1))
		unreadNL = true
	}
	value := framed - 1
	target := c16msg("target", value)
	if target == nil {
		return
	}
	follower := append(c16msg("follow", c16minValue), '\n')

	// writer: predecessors first; for "coalesced" everything is written before the reader starts
	var stream []byte
	for _, b := range pre {
		stream = append(stream, b...)
	}
	var tail []byte
	if unreadNL {
		tail = append(tail, '\n')
	}
	tail = append(tail, target...)
	tail = append(tail, '\n')
	tail = append(tail, follower...)

	recvOne := func() (interface{}, error, int64) {
		before := tp.CB.Delivered()
		ctx, cancel := context.WithTimeout(context.Background(), 60*time.Second)
		env, err := tp.B.Receive(ctx)
		cancel()
		return env, err, tp.CB.Delivered() - before
	}
	check := func(what string, consumed int64) {
		r.Count("receives_measured", 1)
		if consumed > int64(eff) {
			r.Violate("C16/overconsume/"+what, fmt.Sprintf("limit %d, %s: one Receive consumed %d bytes from the connection (class %s framed %d, position %s, fragmentation %s)", eff, what, consumed, cls, framed, pos, frag))
		}
	}
	r.Evals++
	r.Count("runs", 1)
	key := fmt.Sprintf("L%d|%s|%s|%s", eff, cls, pos, frag)
	if framed >= eff/2 {
		fps[key] = true
	}
	writeDone := make(chan struct{})
	if pos == "primed" && len(pre) == 2 {
		go func() {
			_, _ = tp.CA.Write(pre[0])
			// wait until the big predecessor has been consumed, then send the tiny one together with the target
			for tp.CB.Buffered() > 0 {
				time.Sleep(50 * time.Microsecond)
			}
			time.Sleep(200 * time.Microsecond)
			_, _ = tp.CA.Write(append(append([]byte{}, pre[1]...), tail...))
			close(writeDone)
		}()
	} else if pos == "coalesced" || pos == "first" || unreadNL {
		go func() {
			_, _ = tp.CA.Write(append(append([]byte{}, stream...), tail...))
			close(writeDone)
		}()
	} else {
		go func() {
			_, _ = tp.CA.Write(stream)
			close(writeDone)
		}()
	}
	if unreadNL {
		// the predecessor and the rest are in one write, but reads are fragmented so the first Receive stops at '}' when frag=1;
		// with other fragmentations the newline is read ahead, which is the ordinary coalesced situation
	}
	for i := range pre {
		env, err, consumed := recvOne()
		check("predecessor", consumed)
		if invalidPre {
			if err == nil {
				r.Violate("C16/invalid-accepted", fmt.Sprintf("limit %d: a message without its type was accepted: %v", eff, env))
				return
			}
			r.Count("invalid_predecessors_rejected", 1)
			continue
		}
		if err != nil {
			r.Violate("C16/rejected-within-limit/predecessor", fmt.Sprintf("limit %d: predecessor #%d of %d bytes (position %s, fragmentation %s) was rejected: %v", eff, i, len(pre[i]), pos, frag, err))
			return
		}
		_ = env
	}
	<-writeDone
	if !(pos == "coalesced" || pos == "first" || unreadNL || (pos == "primed" && len(pre) == 2)) {
		go func() { _, _ = tp.CA.Write(tail) }()
	}
	env, err, consumed := recvOne()
	check("target", consumed)
	switch {
	case framed <= eff:
		if err != nil {
			r.Violate("C16/rejected-within-limit/"+cls, fmt.Sprintf("limit %d: envelope of framed size %d (<= limit; class %s, position %s, fragmentation %s) was rejected: %v", eff, framed, cls, pos, frag, err))
			return
		}
		m, ok := env.(*lime.Message)
		if !ok || m.ID != "target" || len(string(*(m.Content.(*lime.TextDocument)))) != value-len(`{"id":"target","type":"text/plain","content":""}`) {
			r.Violate("C16/corrupted/"+cls, fmt.Sprintf("limit %d: accepted envelope differs from what was sent (class %s, position %s, fragmentation %s)", eff, cls, pos, frag))
			return
		}
		r.Count("accepted_within_limit", 1)
		env2, err2, consumed2 := recvOne()
		check("follower", consumed2)
		if err2 != nil {
			r.Violate("C16/follower-lost/"+cls, fmt.Sprintf("limit %d: the envelope following an accepted one of framed size %d was rejected: %v (position %s, fragmentation %s)", eff, framed, err2, pos, frag))
			return
		}
		if m2, ok := env2.(*lime.Message); !ok || m2.ID != "follow" {
			r.Violate("C16/follower-corrupted/"+cls, fmt.Sprintf("limit %d: follower differs", eff))
		}
	case framed > 2*eff:
		if err == nil {
			r.Violate("C16/accepted-over-2x/"+cls, fmt.Sprintf("limit %d: envelope of framed size %d (> 2x limit; class %s, position %s, fragmentation %s) was accepted", eff, framed, cls, pos, frag))
			return
		}
		r.Count("rejected_over_2x", 1)
	default:
		if err == nil {
			r.Count("between_accepted", 1)
		} else {
			r.Count("between_rejected", 1)
		}
	}
	if r.Sample == nil && framed > eff {
		r.Sample = map[string]interface{}{"limit": eff, "size_class": cls, "framed_size": framed, "position": pos, "fragmentation": frag, "predecessors": len(pre), "target_receive_consumed_bytes": consumed, "target_result": fmt.Sprint(err)}
	}
}

// loopback: the real listener and dialer must enforce their configured limits.
func (p c16) loopback(r *core.Result, fps map[string]bool) {
	for _, L := range []int{256, 4096} {
		l := lime.NewTCPTransportListener(&lime.TCPConfig{ReadLimit: int64(L)})
		if err := l.Listen(context.Background(), &net.TCPAddr{IP: net.IPv4(127, 0, 0, 1), Port: 0}); err != nil {
			r.Verdict = core.Inconclusive
			r.Note = "cannot listen on loopback: " + err.Error()
			return
		}
		addr := lime.VerifListenerAddr(l)
		for _, framed := range []int{L, 3 * L} {
			r.Evals++
			r.Count("runs", 1)
			r.Count("loopback_runs", 1)
			fps[fmt.Sprintf("loopback-accept|L%d|%d", L, framed)] = true
			conn, err := net.Dial("tcp", addr.String())
			if err != nil {
				r.Verdict = core.Inconclusive
				r.Note = err.Error()
				_ = l.Close()
				return
			}
			ctx, cancel := context.WithTimeout(context.Background(), 10*time.Second)
			t, err := l.Accept(ctx)
			cancel()
			if err != nil {
				r.Violate("C16/loopback/accept", err.Error())
				conn.Close()
				continue
			}
			go func() { _, _ = conn.Write(append(c16msg("target", framed-1), '\n')) }()
			ctx, cancel = context.WithTimeout(context.Background(), 20*time.Second)
			_, rerr := t.Receive(ctx)
			cancel()
			if framed <= L && rerr != nil {
				r.Violate("C16/rejected-within-limit/listener", fmt.Sprintf("accepted transport with listener limit %d rejected framed size %d: %v", L, framed, rerr))
			}
			if framed > 2*L && rerr == nil {
				r.Violate("C16/accepted-over-2x/listener", fmt.Sprintf("a transport accepted from a listener configured with ReadLimit %d accepted an envelope of framed size %d", L, framed))
			}
			if framed <= L && rerr == nil {
				r.Count("accepted_within_limit", 1)
			}
			if framed > 2*L && rerr != nil {
				r.Count("rejected_over_2x", 1)
			}
			conn.Close()
			_ = t.Close()
		}
		// the limit is per envelope, not per connection: a long stream of envelopes within the limit, on one accepted
		// and on one dialed connection
		{
			r.Evals++
			r.Count("runs", 1)
			r.Count("loopback_runs", 1)
			fps[fmt.Sprintf("loopback-accept-stream|L%d", L)] = true
			conn, err := net.Dial("tcp", addr.String())
			if err == nil {
				ctx, cancel := context.WithTimeout(context.Background(), 10*time.Second)
				t, err := l.Accept(ctx)
				cancel()
				if err == nil {
					const k = 16
					go func() {
						for i := 0; i < k; i++ {
							_, _ = conn.Write(append(c16msg(fmt.Sprintf("s%02d", i), L/2), '\n'))
						}
					}()
					for i := 0; i < k; i++ {
						ctx, cancel := context.WithTimeout(context.Background(), 20*time.Second)
						_, rerr := t.Receive(ctx)
						cancel()
						if rerr != nil {
							r.Violate("C16/rejected-within-limit/listener-stream", fmt.Sprintf("accepted transport with listener limit %d: envelope #%d of a stream of %d-byte envelopes was rejected after %d bytes had been received on the connection: %v", L, i, L/2, i*(L/2+1), rerr))
							break
						}
						r.Count("accepted_within_limit", 1)
					}
					_ = t.Close()
				}
				conn.Close()
			}
			if rawl, err := net.Listen("tcp", "127.0.0.1:0"); err == nil {
				fps[fmt.Sprintf("loopback-dial-stream|L%d", L)] = true
				const k = 16
				go func() {
					c, err := rawl.Accept()
					if err == nil {
						for i := 0; i < k; i++ {
							_, _ = c.Write(append(c16msg(fmt.Sprintf("s%02d", i), L/2), '\n'))
						}
						time.Sleep(300 * time.Millisecond)
						c.Close()
					}
				}()
				ctx, cancel := context.WithTimeout(context.Background(), 30*time.Second)
				if t, err := lime.DialTcp(ctx, rawl.Addr(), &lime.TCPConfig{ReadLimit: int64(L)}); err == nil {
					for i := 0; i < k; i++ {
						if _, rerr := t.Receive(ctx); rerr != nil {
							r.Violate("C16/rejected-within-limit/dial-stream", fmt.Sprintf("dialed transport with limit %d: envelope #%d of a stream of %d-byte envelopes was rejected after %d bytes had been received on the connection: %v", L, i, L/2, i*(L/2+1), rerr))
							break
						}
						r.Count("accepted_within_limit", 1)
					}
					_ = t.Close()
				}
				cancel()
				rawl.Close()
			}
		}
		// dialer side
		raw, err := net.Listen("tcp", "127.0.0.1:0")
		if err == nil {
			for _, framed := range []int{L, 3 * L} {
				r.Evals++
				r.Count("runs", 1)
				r.Count("loopback_runs", 1)
				fps[fmt.Sprintf("loopback-dial|L%d|%d", L, framed)] = true
				go func() {
					c, err := raw.Accept()
					if err == nil {
						_, _ = c.Write(append(c16msg("target", framed-1), '\n'))
						time.Sleep(200 * time.Millisecond)
						c.Close()
					}
				}()
				ctx, cancel := context.WithTimeout(context.Background(), 10*time.Second)
				t, err := lime.DialTcp(ctx, raw.Addr(), &lime.TCPConfig{ReadLimit: int64(L)})
				if err != nil {
					cancel()
					continue
				}
				_, rerr := t.Receive(ctx)
				cancel()
				if framed <= L && rerr != nil {
					r.Violate("C16/rejected-within-limit/dial", fmt.Sprintf("dialed transport with limit %d rejected framed size %d: %v", L, framed, rerr))
				}
				if framed > 2*L && rerr == nil {
					r.Violate("C16/accepted-over-2x/dial", fmt.Sprintf("a dialed transport configured with ReadLimit %d accepted an envelope of framed size %d", L, framed))
				}
				_ = t.Close()
			}
			raw.Close()
		}
		_ = l.Close()
	}
}
