package props

import (
	"context"
	"errors"
	"fmt"
	"strings"
	"sync"
	"time"

	lime "github.com/takenet/lime-go"

	"net"
	"os"
	"verif/harness/internal/core"
	"verif/harness/internal/rig"
)

// C20 — Each inbound envelope is dispatched to exactly the first matching handler.
type c20 struct{}

func init() { core.Register(c20{}) }

func (c20) ID() string                  { return "C20" }
func (c20) Level() string               { return "exploration" }
func (c20) ChildParallel() int          { return 2 }
func (c20) Exhaustive(tier string) bool { return false }
func (c20) Rule() string {
	return "Exhaustive part (both tiers): for each of the 4 envelope kinds, all handler tables of 1..3 handlers whose predicates range over {missing, always, never, class A only, class B only} (155 tables per kind), each fed a 12-envelope sequence of classes A, B and C (C matches only missing/always) through the real EnvelopeMux dispatch loop on a real established server channel (in-process and TCP alternating), followed by an end marker; the same tables on the client side through the high-level Client for a rotating quarter of them. " +
		"Random part: tables of up to 8 handlers with predicates over 4 classes, and one handler that returns an error at a random position, through a real Server (the server must then stop dispatching and the client must observe a finished session within 15 s) and through a Client (recorded only, as the statement words the clause for the server). " +
		"Oracle: reference first-match over the predicates' truth tables; per envelope token exactly one invocation, of the lowest-index accepting handler, with the id and payload as sent; none when nothing matches, and the following envelopes are still dispatched. Non-trivial = table with >=2 handlers or an unmatched envelope; distinct = (side, kind, table shape, error position)."
}
func (c20) Assumptions() []string {
	return []string{"handlers only record; the end marker is an extra last handler matching only the marker class"}
}
func (c20) Floors(tier string) map[string]int {
	return map[string]int{"tables": 600, "envelopes_dispatched": 5000, "unmatched_envelopes": 500, "error_tables": 20, "finished_after_error": 20, "client_tables": 100}
}

var c20preds = []string{"nil", "always", "never", "A", "B"}

func (c20) Plan(tier string, seed uint64) []core.Case {
	var cases []core.Case
	// enumerate tables
	var tables [][]string
	for n := 1; n <= 3; n++ {
		idx := make([]int, n)
		for {
			t := make([]string, n)
			for i, x := range idx {
				t[i] = c20preds[x]
			}
			tables = append(tables, t)
			k := n - 1
			for k >= 0 {
				idx[k]++
				if idx[k] < len(c20preds) {
					break
				}
				idx[k] = 0
				k--
			}
			if k < 0 {
				break
			}
		}
	}
	for kind := 0; kind < 4; kind++ {
		for lo := 0; lo < len(tables); lo += 40 {
			hi := lo + 40
			if hi > len(tables) {
				hi = len(tables)
			}
			var sub []interface{}
			for _, t := range tables[lo:hi] {
				sub = append(sub, strings.Join(t, ","))
			}
			transport := []string{rig.InProc, "faulttcp"}[(lo/40+kind)%2]
			cases = append(cases, core.Case{ID: fmt.Sprintf("C20/exhaustive/%s/%s/%03d", c04kinds[kind], transport, lo), Engine: "exhaustive", Seed: seed, P: map[string]interface{}{"kind": kind, "tables": sub, "transport": transport, "client_quarter": (lo / 40) % 4}, TimeoutS: 300})
		}
	}
	// tables assembled by the two builders: registration order is call order (AutoReplyPings is a registration too)
	cases = append(cases, core.Case{ID: "C20/builders", Engine: "builders", Seed: seed, TimeoutS: 120})
	nr := 200
	if tier == "thorough" {
		nr = 5000
	}
	for i := 0; i < nr; i += 25 {
		cases = append(cases, core.Case{ID: fmt.Sprintf("C20/random/%04d", i), Engine: "random", Seed: core.Derive(seed, 7, uint64(i)).Uint64(), P: map[string]interface{}{"n": 25}, TimeoutS: 600})
	}
	return cases
}

type c20inv struct {
	handler int
	tok     string
	payload string
}

type c20log struct {
	mu   sync.Mutex
	invs []c20inv
	end  chan struct{}
	once sync.Once
}

func (l *c20log) add(h int, tok, payload string) {
	l.mu.Lock()
	l.invs = append(l.invs, c20inv{h, tok, payload})
	l.mu.Unlock()
	if strings.HasPrefix(tok, "END") {
		l.once.Do(func() { close(l.end) })
	}
}

func c20class(id string) string {
	if i := strings.IndexByte(id, '-'); i > 0 {
		return id[:i]
	}
	return ""
}

func c20accepts(pred, class string) bool {
	switch pred {
	case "nil", "always":
		return true
	case "never":
		return false
	case "END":
		return class == "END"
	default:
		return class == pred
	}
}

// c20buildMux registers the table for one kind; errAt>=0 makes that handler return an error when it handles class "E".
func c20buildMux(kind int, table []string, log *c20log, errAt int) *lime.EnvelopeMux {
	mux := &lime.EnvelopeMux{}
	full := append(append([]string{}, table...), "END")
	for i, pred := range full {
		i, pred := i, pred
		herr := func(id string) error {
			if i == errAt && c20class(id) == "E" {
				// the kind of error does not matter: plain, a wrapped context error, a timeout
				switch len(table) % 3 {
				case 1:
					return fmt.Errorf("handler failure (harness): %w", context.DeadlineExceeded)
				case 2:
					return &net.OpError{Op: "write", Net: "tcp", Err: os.ErrDeadlineExceeded}
				}
				return errors.New("handler failure (harness)")
			}
			return nil
		}
		switch kind {
		case 0:
			var p lime.MessagePredicate
			if pred != "nil" {
				p = func(m *lime.Message) bool { return c20accepts(pred, c20class(m.ID)) }
			}
			mux.MessageHandlerFunc(p, func(ctx context.Context, m *lime.Message, s lime.Sender) error {
				_, sum, _ := c04observe(m)
				log.add(i, m.ID, sum)
				return herr(m.ID)
			})
		case 1:
			var p lime.NotificationPredicate
			if pred != "nil" {
				p = func(m *lime.Notification) bool { return c20accepts(pred, c20class(m.ID)) }
			}
			mux.NotificationHandlerFunc(p, func(ctx context.Context, m *lime.Notification) error {
				_, sum, _ := c04observe(m)
				log.add(i, m.ID, sum)
				return herr(m.ID)
			})
		case 2:
			var p lime.RequestCommandPredicate
			if pred != "nil" {
				p = func(m *lime.RequestCommand) bool { return c20accepts(pred, c20class(m.ID)) }
			}
			mux.RequestCommandHandlerFunc(p, func(ctx context.Context, m *lime.RequestCommand, s lime.Sender) error {
				_, sum, _ := c04observe(m)
				log.add(i, m.ID, sum)
				return herr(m.ID)
			})
		default:
			var p lime.ResponseCommandPredicate
			if pred != "nil" {
				p = func(m *lime.ResponseCommand) bool { return c20accepts(pred, c20class(m.ID)) }
			}
			mux.ResponseCommandHandlerFunc(p, func(ctx context.Context, m *lime.ResponseCommand, s lime.Sender) error {
				_, sum, _ := c04observe(m)
				log.add(i, m.ID, sum)
				return herr(m.ID)
			})
		}
	}
	return mux
}

// c20judge compares the invocation log with the first-match reference.
func c20judge(r *core.Result, side string, kind int, table []string, sent []c04sent, log *c20log, stopAfter string) {
	log.mu.Lock()
	invs := append([]c20inv{}, log.invs...)
	log.mu.Unlock()
	full := append(append([]string{}, table...), "END")
	byTok := map[string][]c20inv{}
	for _, in := range invs {
		byTok[in.tok] = append(byTok[in.tok], in)
	}
	tag := fmt.Sprintf("%s mux, %s handlers [%s]", side, c04kinds[kind], strings.Join(table, " "))
	stopped := false
	for _, e := range sent {
		class := c20class(e.tok)
		want := -1
		for i, p := range full {
			if c20accepts(p, class) {
				want = i
				break
			}
		}
		got := byTok[e.tok]
		if stopped {
			if len(got) > 0 {
				r.Violate("C20/dispatch-after-error/"+side, fmt.Sprintf("%s: %s was dispatched after a handler had returned an error", tag, e.tok))
			}
			continue
		}
		r.Count("envelopes_dispatched", 1)
		if want < 0 {
			r.Count("unmatched_envelopes", 1)
			if len(got) > 0 {
				r.Violate("C20/unmatched-dispatched/"+side+"/"+c04kinds[kind], fmt.Sprintf("%s: %s matches no handler but handler #%d was invoked", tag, e.tok, got[0].handler))
			}
		} else {
			switch {
			case len(got) == 0:
				r.Violate("C20/not-dispatched/"+side+"/"+c04kinds[kind], fmt.Sprintf("%s: %s should go to handler #%d but no handler was invoked (a preceding unmatched envelope may have stopped the loop)", tag, e.tok, want))
			case len(got) > 1:
				r.Violate("C20/multiple-handlers/"+side+"/"+c04kinds[kind], fmt.Sprintf("%s: %s was handled %d times (handlers %v), expected once by #%d", tag, e.tok, len(got), handlersOf(got), want))
			case got[0].handler != want:
				r.Violate("C20/wrong-handler/"+side+"/"+c04kinds[kind], fmt.Sprintf("%s: %s was handled by #%d, the earliest accepting handler is #%d", tag, e.tok, got[0].handler, want))
			case got[0].payload != e.sum:
				r.Violate("C20/envelope-altered/"+side+"/"+c04kinds[kind], fmt.Sprintf("%s: %s reached the handler with a different payload", tag, e.tok))
			}
		}
		if stopAfter != "" && e.tok == stopAfter {
			stopped = true
		}
	}
	for tok := range byTok {
		found := false
		for _, e := range sent {
			if e.tok == tok {
				found = true
			}
		}
		if !found {
			r.Violate("C20/fabricated/"+side, fmt.Sprintf("%s: a handler was invoked for %q which was never sent", tag, tok))
		}
	}
}

func handlersOf(l []c20inv) []int {
	var out []int
	for _, i := range l {
		out = append(out, i.handler)
	}
	return out
}

// c20sequence builds the envelope sequence for a kind.
func c20sequence(kind int, classes []string) ([]interface{}, []c04sent) {
	var envs []interface{}
	var sent []c04sent
	for i, cl := range classes {
		tok := fmt.Sprintf("%s-%d", cl, i)
		e, sum := c04build(kind, tok, 16)
		envs = append(envs, e)
		sent = append(sent, c04sent{tok: tok, sum: sum, kind: c04kinds[kind]})
	}
	return envs, sent
}

func (p c20) Run(c core.Case) core.Result {
	var r core.Result
	r.Verdict = core.Held
	switch c.Engine {
	case "exhaustive":
		p.exhaustive(&r, c)
	case "random":
		p.random(&r, c)
	case "builders":
		p.builders(&r, c)
	}
	return r
}

// builders: ServerBuilder and ClientBuilder register handlers in call order. Table: [specific get /x] [AutoReplyPings]
// [catch-all]: a ping goes to the auto-reply, /x to the specific handler, anything else to the catch-all.
func (p c20) builders(r *core.Result, c core.Case) {
	ctx, cancel := context.WithTimeout(context.Background(), 60*time.Second)
	defer cancel()
	ask := func(tag string, cp lime.CommandProcessor, uri, wantStatus, wantDesc string) {
		req := &lime.RequestCommand{}
		req.ID = lime.NewEnvelopeID()
		req.Method = lime.CommandMethodGet
		req.SetURIString(uri)
		octx, oc := context.WithTimeout(ctx, 10*time.Second)
		defer oc()
		resp, err := cp.ProcessCommand(octx, req)
		r.Evals++
		r.Count("builder_dispatches", 1)
		if err != nil {
			r.Violate("C20/builders/no-answer/"+tag, fmt.Sprintf("%s: get %s was not answered: %v", tag, uri, err))
			return
		}
		desc := ""
		if resp.Reason != nil {
			desc = resp.Reason.Description
		}
		if string(resp.Status) != wantStatus || desc != wantDesc {
			r.Violate("C20/builders/wrong-handler/"+tag, fmt.Sprintf("%s: table [get /x -> 'specific'] [AutoReplyPings] [catch-all -> 'catch-all'] answered get %s with status %s reason %q, expected status %s reason %q (the earliest registered matching handler)", tag, uri, resp.Status, desc, wantStatus, wantDesc))
		}
	}
	specific := func(cmd *lime.RequestCommand) bool { return cmd.URI != nil && cmd.URI.Path() == "/x" }
	answer := func(desc string) lime.RequestCommandHandlerFunc {
		return func(ctx context.Context, cmd *lime.RequestCommand, sd lime.Sender) error {
			return sd.SendResponseCommand(ctx, cmd.FailureResponse(&lime.Reason{Code: 1, Description: desc}))
		}
	}
	// server side
	smux := lime.NewServerBuilder().
		RequestCommandHandlerFunc(specific, answer("specific")).
		AutoReplyPings().
		RequestCommandsHandlerFunc(answer("catch-all")).
		ListenInProcess(rig.NewInProcAddr()).Build().VerifMux()
	var est sync.Mutex
	var srvCh *lime.ServerChannel
	got := make(chan struct{}, 1)
	cfg := rig.DefaultServerConfig()
	cfg.Established = func(id string, ch *lime.ServerChannel) {
		est.Lock()
		srvCh = ch
		est.Unlock()
		select {
		case got <- struct{}{}:
		default:
		}
	}
	sr, err := rig.StartServer(cfg, smux, []string{rig.InProc, rig.TCP}, 0)
	if err != nil {
		r.Verdict = core.Inconclusive
		r.Note = err.Error()
		return
	}
	defer sr.Close(20 * time.Second)
	cc, _, err := sr.EstablishClient(ctx, rig.TCP, 4, 4, lime.Identity{Name: "c20b", Domain: "verif.local"}, "i")
	if err != nil {
		r.Verdict = core.Inconclusive
		r.Note = err.Error()
		return
	}
	go func() {
		for range cc.MsgChan() {
		}
	}()
	ask("server-builder", cc, "/ping", "success", "")
	ask("server-builder", cc, "/x", "failure", "specific")
	ask("server-builder", cc, "/other", "failure", "catch-all")
	ask("server-builder", cc, "/ping", "success", "")
	_ = cc.Close()
	// client side: the server asks the client
	select {
	case <-got:
	default:
	}
	client := lime.NewClientBuilder().
		UseInProcess(sr.InProcAddr, 4).
		Name("c20cb").Domain("verif.local").Instance("i").
		GuestAuthentication().
		RequestCommandHandlerFunc(specific, answer("specific")).
		AutoReplyPings().
		RequestCommandsHandlerFunc(answer("catch-all")).
		Build()
	defer client.Close()
	if err := client.Establish(ctx); err != nil {
		r.Verdict = core.Inconclusive
		r.Note = "client builder establish: " + err.Error()
		return
	}
	select {
	case <-got:
	case <-time.After(10 * time.Second):
		r.Verdict = core.Inconclusive
		r.Note = "no Established callback for the builder-made client"
		return
	}
	est.Lock()
	sc := srvCh
	est.Unlock()
	ask("client-builder", sc, "/ping", "success", "")
	ask("client-builder", sc, "/x", "failure", "specific")
	ask("client-builder", sc, "/other", "failure", "catch-all")
	r.Fingerprints = append(r.Fingerprints, "builders|server", "builders|client")
}

// bare established channel pair.
func c20pair(transport string) (*lime.ClientChannel, *lime.ServerChannel, func(), error) {
	libS, cleanup, libC, err := c20link(transport)
	if err != nil {
		return nil, nil, nil, err
	}
	sc := lime.NewServerChannel(libS, 4, lime.ParseNode(c06srvNode), "c20-"+fmt.Sprint(time.Now().UnixNano()))
	cc := lime.NewClientChannel(libC, 4)
	errs := make(chan error, 2)
	go func() {
		ctx, cancel := context.WithTimeout(context.Background(), 10*time.Second)
		defer cancel()
		errs <- sc.EstablishSession(ctx, []lime.SessionCompression{lime.SessionCompressionNone}, []lime.SessionEncryption{lime.SessionEncryptionNone}, []lime.AuthenticationScheme{lime.AuthenticationSchemeGuest},
			func(ctx context.Context, id lime.Identity, a lime.Authentication) (*lime.AuthenticationResult, error) {
				return lime.MemberAuthenticationResult(), nil
			},
			func(ctx context.Context, n lime.Node, ch *lime.ServerChannel) (lime.Node, error) {
				return lime.Node{Identity: lime.Identity{Name: "cli", Domain: "verif.local"}, Instance: "i"}, nil
			})
	}()
	go func() {
		ctx, cancel := context.WithTimeout(context.Background(), 10*time.Second)
		defer cancel()
		_, err := cc.EstablishSession(ctx, lime.NoneCompressionSelector, lime.NoneEncryptionSelector, lime.Identity{Name: "cli", Domain: "verif.local"}, lime.GuestAuthenticator, "i")
		errs <- err
	}()
	for i := 0; i < 2; i++ {
		if err := <-errs; err != nil {
			cleanup()
			return nil, nil, nil, err
		}
	}
	return cc, sc, func() {
		ctx, cancel := context.WithTimeout(context.Background(), 5*time.Second)
		fin := make(chan struct{})
		go func() { _ = sc.FinishSession(ctx); close(fin) }()
		_, _ = cc.FinishSession(ctx)
		<-fin
		cancel()
		_ = cc.Close()
		_ = sc.Close()
		cleanup()
	}, nil
}

func c20link(transport string) (server lime.Transport, cleanup func(), client lime.Transport, err error) {
	switch transport {
	case rig.InProc:
		addr := rig.NewInProcAddr()
		l := lime.NewInProcessTransportListener(addr)
		if err := l.Listen(context.Background(), addr); err != nil {
			return nil, nil, nil, err
		}
		ct, err := lime.DialInProcess(addr, 8)
		if err != nil {
			return nil, nil, nil, err
		}
		ctx, cancel := context.WithTimeout(context.Background(), 5*time.Second)
		st, err := l.Accept(ctx)
		cancel()
		if err != nil {
			return nil, nil, nil, err
		}
		return st, func() { _ = l.Close() }, ct, nil
	default:
		tp := rig.NewTransportPair(faultconnOpts(), nil, nil)
		tp.CA.SetTap(false)
		return tp.B, func() {}, tp.A, nil
	}
}

func (p c20) exhaustive(r *core.Result, c core.Case) {
	kind := c.Int("kind", 0)
	transport := c.Str("transport", rig.InProc)
	classes := []string{"A", "B", "C", "A", "C", "B", "B", "A", "C", "C", "A", "B", "END"}
	for ti, ts := range c.Strs("tables") {
		table := strings.Split(ts, ",")
		log := &c20log{end: make(chan struct{})}
		mux := c20buildMux(kind, table, log, -1)
		cc, sc, cleanup, err := c20pair(transport)
		if err != nil {
			r.Verdict = core.Inconclusive
			r.Note = err.Error()
			return
		}
		lctx, lcancel := context.WithCancel(context.Background())
		ldone := make(chan error, 1)
		go func() { ldone <- mux.ListenServer(lctx, sc) }()
		envs, sent := c20sequence(kind, classes)
		for _, e := range envs {
			sctx, scancel := context.WithTimeout(context.Background(), 10*time.Second)
			if err := c04send(sctx, cc, e); err != nil {
				r.Violate("C20/harness/send", err.Error())
			}
			scancel()
		}
		select {
		case <-log.end:
		case <-time.After(10 * time.Second):
			r.Violate("C20/session-did-not-continue/server/"+c04kinds[kind], fmt.Sprintf("server mux, %s handlers [%s]: the end marker sent after unmatched envelopes was never dispatched", c04kinds[kind], ts))
		}
		c20judge(r, "server", kind, table, sent, log, "")
		r.Evals++
		r.Count("tables", 1)
		if len(table) >= 2 {
			r.Fingerprints = append(r.Fingerprints, fmt.Sprintf("server|%s|%s", c04kinds[kind], ts))
		}
		lcancel()
		select {
		case <-ldone:
		case <-time.After(10 * time.Second):
		}
		cleanup()
		if r.Sample == nil && len(table) == 3 {
			r.Sample = map[string]interface{}{"side": "server", "kind": c04kinds[kind], "table": table, "classes_sent": classes, "invocations": len(log.invs)}
		}
		// client side for a rotating quarter of the tables
		if ti%4 == c.Int("client_quarter", 0) {
			p.clientTable(r, kind, table, classes, -1)
		}
		if len(r.Findings) > 20 {
			return
		}
	}
}

// clientTable runs a table through the high-level Client: the server sends, the client's mux dispatches.
func (p c20) clientTable(r *core.Result, kind int, table []string, classes []string, errAt int) {
	log := &c20log{end: make(chan struct{})}
	mux := c20buildMux(kind, table, log, errAt)
	cfg := rig.DefaultServerConfig()
	scCh := make(chan *lime.ServerChannel, 4)
	cfg.Established = func(id string, sc *lime.ServerChannel) {
		select {
		case scCh <- sc:
		default:
		}
	}
	sr, err := rig.StartServer(cfg, nil, []string{rig.InProc}, 0)
	if err != nil {
		r.Verdict = core.Inconclusive
		r.Note = err.Error()
		return
	}
	defer sr.Close(10 * time.Second)
	ccfg := lime.NewClientConfig()
	ccfg.Node = lime.Node{Identity: lime.Identity{Name: "c20client", Domain: "verif.local"}, Instance: "i"}
	ccfg.ChannelBufferSize = 4
	addr := sr.InProcAddr
	ccfg.NewTransport = func(ctx context.Context) (lime.Transport, error) { return sr.Dial(ctx, rig.InProc, 4, nil) }
	_ = addr
	ccfg.CompSelector = func(o []lime.SessionCompression) lime.SessionCompression { return lime.SessionCompressionNone }
	ccfg.EncryptSelector = lime.NoneEncryptionSelector
	ccfg.Authenticator = lime.GuestAuthenticator
	client := lime.NewClient(ccfg, mux)
	defer client.Close()
	ectx, ecancel := context.WithTimeout(context.Background(), 10*time.Second)
	err = client.Establish(ectx)
	ecancel()
	if err != nil {
		r.Verdict = core.Inconclusive
		r.Note = "client establish: " + err.Error()
		return
	}
	var sc *lime.ServerChannel
	select {
	case sc = <-scCh:
	case <-time.After(5 * time.Second):
		r.Verdict = core.Inconclusive
		r.Note = "no server channel"
		return
	}
	envs, sent := c20sequence(kind, classes)
	for _, e := range envs {
		sctx, scancel := context.WithTimeout(context.Background(), 10*time.Second)
		_ = c04send(sctx, sc, e)
		scancel()
	}
	select {
	case <-log.end:
	case <-time.After(10 * time.Second):
		if errAt < 0 {
			r.Violate("C20/session-did-not-continue/client/"+c04kinds[kind], fmt.Sprintf("client mux, %s handlers [%s]: the end marker was never dispatched", c04kinds[kind], strings.Join(table, " ")))
		}
	}
	if errAt < 0 {
		c20judge(r, "client", kind, table, sent, log, "")
	} else {
		r.Count("client_error_tables_recorded", 1)
	}
	r.Count("client_tables", 1)
	r.Evals++
	if len(table) >= 2 {
		r.Fingerprints = append(r.Fingerprints, fmt.Sprintf("client|%s|%s|err=%d", c04kinds[kind], strings.Join(table, ","), errAt))
	}
}

// random tables with a failing handler through a real Server.
func (p c20) random(r *core.Result, c core.Case) {
	rng := core.NewRng(c.Seed)
	classPool := []string{"A", "B", "C", "D"}
	for n := 0; n < c.Int("n", 10); n++ {
		kind := rng.Intn(4)
		nh := 1 + rng.Intn(8)
		table := make([]string, nh)
		preds := []string{"nil", "always", "never", "A", "B", "C", "D"}
		for i := range table {
			table[i] = preds[rng.Intn(len(preds))]
		}
		// the failing handler must be the first match of class E: give it predicate E and place it
		errAt := rng.Intn(nh)
		table[errAt] = "E"
		for i := 0; i < errAt; i++ {
			if table[i] == "nil" || table[i] == "always" {
				table[i] = "never" // otherwise E would be captured earlier
			}
		}
		var classes []string
		ne := 6 + rng.Intn(12)
		epos := 2 + rng.Intn(ne-3)
		for i := 0; i < ne; i++ {
			if i == epos {
				classes = append(classes, "E")
			} else {
				classes = append(classes, classPool[rng.Intn(len(classPool))])
			}
		}
		classes = append(classes, "END")
		log := &c20log{end: make(chan struct{})}
		mux := c20buildMux(kind, table, log, errAt)
		cfg := rig.DefaultServerConfig()
		flavour := []string{rig.InProc, rig.TCP}[n%2]
		sr, err := rig.StartServer(cfg, mux, []string{flavour}, 0)
		if err != nil {
			r.Verdict = core.Inconclusive
			r.Note = err.Error()
			return
		}
		ctx, cancel := context.WithTimeout(context.Background(), 40*time.Second)
		cc, _, err := sr.EstablishClient(ctx, flavour, 4, 4, lime.Identity{Name: "c20", Domain: "verif.local"}, "i")
		if err != nil {
			cancel()
			sr.Close(5 * time.Second)
			r.Verdict = core.Inconclusive
			r.Note = err.Error()
			return
		}
		envs, sent := c20sequence(kind, classes)
		stopTok := ""
		for i, e := range envs {
			if classes[i] == "E" {
				stopTok = sent[i].tok
			}
			sctx, scancel := context.WithTimeout(ctx, 5*time.Second)
			_ = c04send(sctx, cc, e) // sends after the session was finished may fail: fine
			scancel()
		}
		// the client must observe a finished session
		finished := false
		fctx, fcancel := context.WithTimeout(ctx, 15*time.Second)
	wait:
		for {
			select {
			case <-cc.RcvDone():
				finished = cc.State() == lime.SessionStateFinished
				break wait
			case <-fctx.Done():
				break wait
			case <-cc.MsgChan():
			case <-cc.NotChan():
			case <-cc.ReqCmdChan():
			case <-cc.RespCmdChan():
			}
		}
		fcancel()
		tag := fmt.Sprintf("server mux over %s, %s handlers [%s], failing handler #%d", flavour, c04kinds[kind], strings.Join(table, " "), errAt)
		r.Evals++
		r.Count("tables", 1)
		r.Count("error_tables", 1)
		if !finished {
			if core.CanaryWorstMS() > 600 {
				r.Verdict = core.Inconclusive
				r.Note = "finished not observed under starvation"
			} else {
				r.Violate("C20/not-finished-after-handler-error", fmt.Sprintf("%s: after the handler returned an error the client did not observe a finished session within 15 s (client state %s)", tag, cc.State()))
			}
		} else {
			r.Count("finished_after_error", 1)
		}
		time.Sleep(5 * time.Millisecond)
		c20judge(r, "server", kind, table, sent, log, stopTok)
		r.Fingerprints = append(r.Fingerprints, fmt.Sprintf("server-error|%s|%s|%d", c04kinds[kind], strings.Join(table, ","), errAt))
		_ = cc.Close()
		cancel()
		sr.Close(10 * time.Second)
		if n%5 == 0 {
			p.clientTable(r, kind, table, classes, errAt)
		}
		if len(r.Findings) > 10 {
			return
		}
	}
}
