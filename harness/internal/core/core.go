// Package core is the parent/child runner shared by all property checks:
// case planning, child processes, crash attribution, verdict aggregation,
// known-finding matching, evidence and replay files.
package core

import (
	"bufio"
	"encoding/json"
	"fmt"
	"os"
	"os/exec"
	"path/filepath"
	"regexp"
	"runtime"
	"sort"
	"strconv"
	"strings"
	"sync"
	"time"
)

// Verdict values.
const (
	Held         = "held"
	Violated     = "violated"
	Inconclusive = "inconclusive"
)

// Case fully determines one workload.
type Case struct {
	ID     string                 `json:"id"`
	Prop   string                 `json:"prop"`
	Engine string                 `json:"engine"`
	Seed   uint64                 `json:"seed"`
	P      map[string]interface{} `json:"p,omitempty"`
	// Solo cases must be the only case running inside their child (census attribution, timing).
	Solo bool `json:"solo,omitempty"`
	// TimeoutS is the hard watchdog for the case (seconds); 0 = default.
	TimeoutS int `json:"timeout_s,omitempty"`
}

func (c Case) Int(k string, def int) int {
	if v, ok := c.P[k]; ok {
		switch x := v.(type) {
		case float64:
			return int(x)
		case int:
			return x
		case int64:
			return int(x)
		case json.Number:
			n, _ := x.Int64()
			return int(n)
		}
	}
	return def
}

func (c Case) Str(k string, def string) string {
	if v, ok := c.P[k]; ok {
		if s, ok := v.(string); ok {
			return s
		}
	}
	return def
}

func (c Case) Bool(k string) bool {
	if v, ok := c.P[k]; ok {
		if b, ok := v.(bool); ok {
			return b
		}
	}
	return false
}

func (c Case) Ints(k string) []int {
	var out []int
	if v, ok := c.P[k]; ok {
		switch l := v.(type) {
		case []interface{}:
			for _, e := range l {
				if f, ok := e.(float64); ok {
					out = append(out, int(f))
				}
			}
		case []int:
			return l
		}
	}
	return out
}

func (c Case) Strs(k string) []string {
	var out []string
	if v, ok := c.P[k]; ok {
		switch l := v.(type) {
		case []interface{}:
			for _, e := range l {
				if s, ok := e.(string); ok {
					out = append(out, s)
				}
			}
		case []string:
			return l
		}
	}
	return out
}

// Finding is one refutation of the property on one case.
type Finding struct {
	Key    string `json:"key"`    // stable finding key, e.g. C12/dup-bytes/short-write
	Detail string `json:"detail"` // human readable witness summary
}

// Result is what a child reports for a case.
type Result struct {
	CaseID      string         `json:"case_id"`
	Verdict     string         `json:"verdict"`
	Findings    []Finding      `json:"findings,omitempty"`
	Note        string         `json:"note,omitempty"` // reason for inconclusive etc.
	NonTrivial  bool           `json:"nontrivial,omitempty"`
	Fingerprint string         `json:"fp,omitempty"`       // distinctness key
	Fingerprints []string      `json:"fps,omitempty"`      // when one case bundles several evaluations: the distinct non-trivial ones
	Evals       int            `json:"evals,omitempty"`    // evaluations bundled in this case (0 = 1)
	Counters    map[string]int `json:"counters,omitempty"` // events observed, hook hits, ...
	Sets        map[string][]string `json:"sets,omitempty"` // set-valued observations (union-ed by the parent)
	Sample      interface{}    `json:"sample,omitempty"`   // optional written-out case/trace for the evidence file
	Log         []string       `json:"log,omitempty"`      // event log excerpt (kept for violations/samples)
	WallMS      int64          `json:"wall_ms"`
}

func (r *Result) Count(name string, n int) {
	if r.Counters == nil {
		r.Counters = map[string]int{}
	}
	r.Counters[name] += n
}

func (r *Result) AddSet(name, v string) {
	if r.Sets == nil {
		r.Sets = map[string][]string{}
	}
	for _, x := range r.Sets[name] {
		if x == v {
			return
		}
	}
	r.Sets[name] = append(r.Sets[name], v)
}

func (r *Result) Violate(key, detail string) {
	r.Verdict = Violated
	if len(detail) > 1500 {
		detail = detail[:1500] + "…"
	}
	for _, f := range r.Findings {
		if f.Key == key {
			return
		}
	}
	r.Findings = append(r.Findings, Finding{Key: key, Detail: detail})
}

func (r *Result) Logf(format string, a ...interface{}) {
	if len(r.Log) < 400 {
		r.Log = append(r.Log, fmt.Sprintf(format, a...))
	}
}

// Property is implemented once per property id.
type Property interface {
	ID() string
	Level() string // exploration | fault_enumeration
	// Plan returns the case list: a pure function of (tier, seed).
	Plan(tier string, seed uint64) []Case
	// Run executes one case inside a child process.
	Run(c Case) Result
	// Rule describes generation / non-triviality / distinctness for the evidence file.
	Rule() string
	Assumptions() []string
	// Floors are minimum aggregated counter values; below them the run observed too little and fails itself.
	Floors(tier string) map[string]int
	// Exhaustive reports whether the plan enumerated a finite space completely (within the bound stated in Rule).
	Exhaustive(tier string) bool
	// ChildParallel is how many cases a child may run concurrently (non-solo cases).
	ChildParallel() int
}

var registry = map[string]Property{}

func Register(p Property) { registry[p.ID()] = p }

func Lookup(id string) Property { return registry[id] }

func IDs() []string {
	var ids []string
	for k := range registry {
		ids = append(ids, k)
	}
	sort.Strings(ids)
	return ids
}

// ---------------------------------------------------------------------------------------------
// child side

// WorkerMain runs the cases listed in inFile, appending one "begin" line and one "result" line per case to outFile.
func WorkerMain(propID, inFile, outFile string) int {
	p := Lookup(propID)
	if p == nil {
		fmt.Fprintf(os.Stderr, "unknown property %s\n", propID)
		return 2
	}
	data, err := os.ReadFile(inFile)
	if err != nil {
		fmt.Fprintln(os.Stderr, err)
		return 2
	}
	var cases []Case
	if err := json.Unmarshal(data, &cases); err != nil {
		fmt.Fprintln(os.Stderr, err)
		return 2
	}
	out, err := os.OpenFile(outFile, os.O_CREATE|os.O_WRONLY|os.O_APPEND, 0o644)
	if err != nil {
		fmt.Fprintln(os.Stderr, err)
		return 2
	}
	defer out.Close()
	var wmu sync.Mutex
	emit := func(kind string, v interface{}) {
		b, _ := json.Marshal(v)
		wmu.Lock()
		fmt.Fprintf(out, "%s %s\n", kind, b)
		_ = out.Sync()
		wmu.Unlock()
	}

	StartCanary()

	runOne := func(c Case) {
		emit("begin", map[string]string{"id": c.ID})
		start := time.Now()
		timeout := time.Duration(c.TimeoutS) * time.Second
		if timeout == 0 {
			timeout = 120 * time.Second
		}
		done := make(chan Result, 1)
		go func() {
			done <- p.Run(c)
		}()
		select {
		case r := <-done:
			r.CaseID = c.ID
			if r.Verdict == "" {
				r.Verdict = Held
			}
			r.WallMS = time.Since(start).Milliseconds()
			emit("result", r)
		case <-time.After(timeout):
			// The case is wedged. Dump goroutines and leave; the parent attributes the hang to this case.
			buf := make([]byte, 1<<20)
			n := runtime.Stack(buf, true)
			fmt.Fprintf(os.Stderr, "WATCHDOG case=%s timeout=%v canary_max_ms=%d\n%s\n", c.ID, timeout, CanaryWorstMS(), buf[:n])
			emit("hang", map[string]interface{}{"id": c.ID, "canary_ms": CanaryWorstMS()})
			os.Exit(3)
		}
	}

	par := p.ChildParallel()
	if par < 1 {
		par = 1
	}
	var solo, shared []Case
	for _, c := range cases {
		if c.Solo {
			solo = append(solo, c)
		} else {
			shared = append(shared, c)
		}
	}
	if par == 1 {
		for _, c := range shared {
			runOne(c)
		}
	} else {
		sem := make(chan struct{}, par)
		var wg sync.WaitGroup
		for _, c := range shared {
			sem <- struct{}{}
			wg.Add(1)
			go func(c Case) {
				defer wg.Done()
				defer func() { <-sem }()
				runOne(c)
			}(c)
		}
		wg.Wait()
	}
	for _, c := range solo {
		runOne(c)
	}
	emit("done", map[string]int{"n": len(cases)})
	return 0
}

// ---------------------------------------------------------------------------------------------
// canary: measures scheduling starvation so that timing verdicts can be downgraded.

var (
	canaryMu    sync.Mutex
	canaryWorst int64 // ms, since last reset
	canaryOnce  sync.Once
)

func StartCanary() {
	canaryOnce.Do(func() {
		go func() {
			for {
				t0 := time.Now()
				time.Sleep(5 * time.Millisecond)
				over := time.Since(t0).Milliseconds() - 5
				canaryMu.Lock()
				if over > canaryWorst {
					canaryWorst = over
				}
				canaryMu.Unlock()
			}
		}()
	})
}

func CanaryReset() {
	canaryMu.Lock()
	canaryWorst = 0
	canaryMu.Unlock()
}

func CanaryWorstMS() int64 {
	canaryMu.Lock()
	defer canaryMu.Unlock()
	return canaryWorst
}

// ---------------------------------------------------------------------------------------------
// parent side

type KnownFinding struct {
	Property string `json:"property"`
	Key      string `json:"key"`
	Status   string `json:"status"` // known | fixed
	Commit   string `json:"commit,omitempty"`
	What     string `json:"what"`
}

type Options struct {
	PropID   string
	Tier     string
	Seed     uint64
	Exe      string // path of the harness binary (for spawning children)
	RaceExe  string // optional race-enabled binary
	VerifDir string
	Workers  int
	Replay   string
}

type crashInfo struct {
	caseID string
	sig    string
	stderr string
}

var panicRe = regexp.MustCompile(`(?m)^(panic: .*|fatal error: .*)$`)

func crashSignature(stderr string) string {
	m := panicRe.FindString(stderr)
	if m == "" {
		if strings.Contains(stderr, "WATCHDOG") {
			return "hang"
		}
		return "exit"
	}
	// normalise addresses / numbers
	m = regexp.MustCompile(`0x[0-9a-f]+`).ReplaceAllString(m, "0x?")
	m = regexp.MustCompile(`\[recovered\].*`).ReplaceAllString(m, "")
	m = regexp.MustCompile(`goroutine \d+`).ReplaceAllString(m, "goroutine N")
	if len(m) > 120 {
		m = m[:120]
	}
	m = strings.TrimSpace(m)
	m = regexp.MustCompile(`[^A-Za-z0-9:_.\- ]+`).ReplaceAllString(m, "")
	return strings.ReplaceAll(m, " ", "-")
}

// frames of lime-go in a crash dump (first goroutine), to make the key site-specific
var limeFrameRe = regexp.MustCompile(`github\.com/takenet/lime-go\.([A-Za-z0-9_.()*]+)`)

func crashSite(stderr string) string {
	idx := panicRe.FindStringIndex(stderr)
	s := stderr
	if idx != nil {
		s = stderr[idx[0]:]
	}
	m := limeFrameRe.FindStringSubmatch(s)
	if m == nil {
		return "unknown-site"
	}
	site := m[1]
	if i := strings.Index(site, "(0x"); i >= 0 {
		site = site[:i] // drop the argument list
	}
	site = strings.NewReplacer("(", "", ")", "", "*", "").Replace(site)
	site = regexp.MustCompile(`0x[0-9a-f]+.*$`).ReplaceAllString(site, "")
	return site
}

type batchOutcome struct {
	results []Result
	crashes []crashInfo
	hangs   []crashInfo
}

// runBatch runs cases in child processes, restarting after a crash until all cases have an outcome.
func runBatch(opt Options, exe string, batchID int, cases []Case, scratch string) batchOutcome {
	var out batchOutcome
	remaining := cases
	attempt := 0
	for len(remaining) > 0 {
		attempt++
		in := filepath.Join(scratch, fmt.Sprintf("b%d.%d.in.json", batchID, attempt))
		res := filepath.Join(scratch, fmt.Sprintf("b%d.%d.out.jsonl", batchID, attempt))
		errf := filepath.Join(scratch, fmt.Sprintf("b%d.%d.stderr", batchID, attempt))
		b, _ := json.Marshal(remaining)
		_ = os.WriteFile(in, b, 0o644)
		ef, _ := os.Create(errf)
		cmd := exec.Command(exe, "worker", opt.PropID, in, res)
		cmd.Stderr = ef
		cmd.Stdout = ef
		cmd.Env = append(os.Environ(), "VERIF_CHILD=1")
		runErr := cmd.Run()
		ef.Close()

		begun := map[string]bool{}
		ended := map[string]bool{}
		hung := ""
		if f, err := os.Open(res); err == nil {
			sc := bufio.NewScanner(f)
			sc.Buffer(make([]byte, 1<<20), 64<<20)
			for sc.Scan() {
				line := sc.Text()
				sp := strings.IndexByte(line, ' ')
				if sp < 0 {
					continue
				}
				kind, payload := line[:sp], line[sp+1:]
				switch kind {
				case "begin":
					var m map[string]string
					if json.Unmarshal([]byte(payload), &m) == nil {
						begun[m["id"]] = true
					}
				case "result":
					var r Result
					if json.Unmarshal([]byte(payload), &r) == nil {
						out.results = append(out.results, r)
						ended[r.CaseID] = true
					}
				case "hang":
					var m map[string]interface{}
					if json.Unmarshal([]byte(payload), &m) == nil {
						hung, _ = m["id"].(string)
					}
				}
			}
			f.Close()
		}
		var next []Case
		if runErr == nil {
			// clean exit: everything must have ended
			for _, c := range remaining {
				if !ended[c.ID] {
					next = append(next, c)
				}
			}
			if len(next) == len(remaining) {
				// no progress although exit 0: give up on these
				for _, c := range next {
					out.results = append(out.results, Result{CaseID: c.ID, Verdict: Inconclusive, Note: "child produced no result"})
				}
				next = nil
			}
			remaining = next
			continue
		}
		// abnormal exit: cases begun but not ended are the suspects
		stderrB, _ := os.ReadFile(errf)
		stderr := string(stderrB)
		if len(stderr) > 200000 {
			stderr = stderr[:100000] + "\n…\n" + stderr[len(stderr)-100000:]
		}
		var suspects []string
		for _, c := range remaining {
			if begun[c.ID] && !ended[c.ID] {
				suspects = append(suspects, c.ID)
			}
		}
		if hung != "" {
			out.hangs = append(out.hangs, crashInfo{caseID: hung, sig: "hang", stderr: stderr})
			ended[hung] = true
			// other in-flight cases of that child were interrupted; they are re-run
			for _, c := range remaining {
				if !ended[c.ID] {
					next = append(next, c)
				}
			}
		} else {
			if len(suspects) == 0 {
				// died before beginning anything (build/env problem)
				for _, c := range remaining {
					if !ended[c.ID] {
						out.results = append(out.results, Result{CaseID: c.ID, Verdict: Inconclusive, Note: "child died before starting the case: " + firstLines(stderr, 5)})
					}
				}
				remaining = nil
				continue
			}
			if len(suspects) == 1 {
				out.crashes = append(out.crashes, crashInfo{caseID: suspects[0], sig: crashSignature(stderr), stderr: stderr})
				ended[suspects[0]] = true
			} else {
				// several cases in flight: re-run the suspects one per child to attribute the crash
				for _, id := range suspects {
					for _, c := range remaining {
						if c.ID == id {
							sub := runBatch(opt, exe, batchID*1000+attempt*50+len(out.crashes)+len(out.results)%47, []Case{c}, scratch)
							out.results = append(out.results, sub.results...)
							out.crashes = append(out.crashes, sub.crashes...)
							out.hangs = append(out.hangs, sub.hangs...)
							ended[id] = true
						}
					}
				}
			}
			for _, c := range remaining {
				if !ended[c.ID] {
					next = append(next, c)
				}
			}
		}
		remaining = next
		if attempt > 200 {
			for _, c := range remaining {
				out.results = append(out.results, Result{CaseID: c.ID, Verdict: Inconclusive, Note: "too many child restarts"})
			}
			break
		}
	}
	return out
}

func firstLines(s string, n int) string {
	lines := strings.Split(s, "\n")
	if len(lines) > n {
		lines = lines[:n]
	}
	return strings.Join(lines, " | ")
}

// Evidence mirrors EVIDENCE.schema.json.
type Evidence struct {
	PropertyID  string                 `json:"property_id"`
	Tier        string                 `json:"tier"`
	Seed        int64                  `json:"seed"`
	Level       string                 `json:"level"`
	Coverage    map[string]interface{} `json:"coverage"`
	Assumptions []string               `json:"assumptions"`
	WallS       float64                `json:"wall_s"`
	Violations  int                    `json:"violations"`
}

func loadKnown(dir string) []KnownFinding {
	var k []KnownFinding
	b, err := os.ReadFile(filepath.Join(dir, "known_findings.json"))
	if err != nil {
		return nil
	}
	var wrap struct {
		Findings []KnownFinding `json:"findings"`
	}
	if json.Unmarshal(b, &wrap) == nil {
		k = wrap.Findings
	}
	return k
}

func keyMatches(pattern, key string) bool {
	if pattern == key {
		return true
	}
	if strings.HasSuffix(pattern, "*") {
		return strings.HasPrefix(key, strings.TrimSuffix(pattern, "*"))
	}
	return false
}

// ParentMain plans, runs, judges, writes evidence, prints VIOLATION / KNOWN-FINDING lines. Returns exit code.
func ParentMain(opt Options) int {
	p := Lookup(opt.PropID)
	if p == nil {
		fmt.Fprintf(os.Stderr, "unknown property %s (have %v)\n", opt.PropID, IDs())
		return 2
	}
	start := time.Now()
	scratch, err := os.MkdirTemp(filepath.Join(opt.VerifDir, ".scratch"), opt.PropID+"-")
	if err != nil {
		_ = os.MkdirAll(filepath.Join(opt.VerifDir, ".scratch"), 0o755)
		scratch, err = os.MkdirTemp(filepath.Join(opt.VerifDir, ".scratch"), opt.PropID+"-")
		if err != nil {
			fmt.Fprintln(os.Stderr, err)
			return 2
		}
	}
	defer os.RemoveAll(scratch)

	var cases []Case
	replayMode := opt.Replay != ""
	if replayMode {
		b, err := os.ReadFile(opt.Replay)
		if err != nil {
			fmt.Fprintln(os.Stderr, err)
			return 2
		}
		var c Case
		if err := json.Unmarshal(b, &c); err != nil {
			fmt.Fprintln(os.Stderr, err)
			return 2
		}
		reps := 1
		if v := os.Getenv("VERIF_REPLAY_REPS"); v != "" {
			reps, _ = strconv.Atoi(v)
		}
		for i := 0; i < reps; i++ {
			cc := c
			cc.ID = fmt.Sprintf("%s#replay%d", c.ID, i)
			cases = append(cases, cc)
		}
	} else {
		cases = p.Plan(opt.Tier, opt.Seed)
	}
	byID := map[string]Case{}
	for i := range cases {
		if cases[i].Prop == "" {
			cases[i].Prop = opt.PropID
		}
		byID[cases[i].ID] = cases[i]
	}

	workers := opt.Workers
	if workers <= 0 {
		workers = runtime.NumCPU()
		if workers > 16 {
			workers = 16
		}
	}
	// Split: cases flagged "race" (P["race"]=true) go to the race binary when available.
	var plain, raced []Case
	for _, c := range cases {
		if c.Bool("race") && opt.RaceExe != "" {
			raced = append(raced, c)
		} else {
			plain = append(plain, c)
		}
	}
	type job struct {
		exe   string
		cases []Case
	}
	var jobs []job
	mk := func(exe string, cs []Case) {
		if len(cs) == 0 {
			return
		}
		// batches: keep solo cases few per child, others chunked
		nb := workers * 2
		if nb > len(cs) {
			nb = len(cs)
		}
		batches := make([][]Case, nb)
		for i, c := range cs {
			batches[i%nb] = append(batches[i%nb], c)
		}
		for _, b := range batches {
			jobs = append(jobs, job{exe, b})
		}
	}
	mk(opt.Exe, plain)
	mk(opt.RaceExe, raced)

	var mu sync.Mutex
	var all batchOutcome
	sem := make(chan struct{}, workers)
	var wg sync.WaitGroup
	for i, j := range jobs {
		sem <- struct{}{}
		wg.Add(1)
		go func(i int, j job) {
			defer wg.Done()
			defer func() { <-sem }()
			o := runBatch(opt, j.exe, i, j.cases, scratch)
			mu.Lock()
			all.results = append(all.results, o.results...)
			all.crashes = append(all.crashes, o.crashes...)
			all.hangs = append(all.hangs, o.hangs...)
			mu.Unlock()
		}(i, j)
	}
	wg.Wait()

	// Inconclusive cases are retried once, serially, on an otherwise idle harness.
	var retry []Case
	kept := all.results[:0]
	for _, r := range all.results {
		if r.Verdict == Inconclusive && !replayMode {
			if c, ok := byID[r.CaseID]; ok {
				retry = append(retry, c)
				continue
			}
		}
		kept = append(kept, r)
	}
	all.results = kept
	// hangs: retried serially too; a hang that recurs is a violation ("blocks") only if the property says so via key
	var hangRetry []Case
	for _, h := range all.hangs {
		if c, ok := byID[h.caseID]; ok {
			hangRetry = append(hangRetry, c)
		}
	}
	firstHangs := all.hangs
	all.hangs = nil
	for i, c := range append(retry, hangRetry...) {
		exe := opt.Exe
		if c.Bool("race") && opt.RaceExe != "" {
			exe = opt.RaceExe
		}
		o := runBatch(opt, exe, 900000+i, []Case{c}, scratch)
		all.results = append(all.results, o.results...)
		all.crashes = append(all.crashes, o.crashes...)
		all.hangs = append(all.hangs, o.hangs...)
	}
	_ = firstHangs

	// Crashes and persistent hangs are violations of the property whose workload was running.
	for _, cr := range all.crashes {
		r := Result{CaseID: cr.caseID, Verdict: Violated}
		r.Findings = []Finding{{Key: fmt.Sprintf("%s/crash/%s/%s", opt.PropID, crashSignature(cr.stderr), crashSite(cr.stderr)), Detail: "child process died: " + lastInput(cr.stderr) + firstLines(panicTail(cr.stderr), 12)}}
		r.Log = strings.Split(panicTail(cr.stderr), "\n")
		if len(r.Log) > 120 {
			r.Log = r.Log[:120]
		}
		all.results = append(all.results, r)
	}
	for _, h := range all.hangs {
		r := Result{CaseID: h.caseID, Verdict: Violated}
		r.Findings = []Finding{{Key: fmt.Sprintf("%s/hang/%s", opt.PropID, hangSite(h.stderr)), Detail: "case exceeded its hard watchdog twice (second time on an idle harness): " + firstLines(h.stderr, 3)}}
		lines := strings.Split(h.stderr, "\n")
		if len(lines) > 200 {
			lines = lines[:200]
		}
		r.Log = lines
		all.results = append(all.results, r)
	}

	// Aggregate.
	known := loadKnown(opt.VerifDir)
	counters := map[string]int{}
	sets := map[string]map[string]bool{}
	fps := map[string]bool{}
	verdicts := map[string]int{}
	evals := 0
	var samples []interface{}
	var violated []Result
	for _, r := range all.results {
		verdicts[r.Verdict]++
		for k, v := range r.Counters {
			counters[k] += v
		}
		for k, vs := range r.Sets {
			if sets[k] == nil {
				sets[k] = map[string]bool{}
			}
			for _, v := range vs {
				sets[k][v] = true
			}
		}
		if r.NonTrivial {
			fp := r.Fingerprint
			if fp == "" {
				fp = r.CaseID
			}
			fps[fp] = true
		}
		for _, fp := range r.Fingerprints {
			fps[fp] = true
		}
		if r.Evals > 1 {
			evals += r.Evals
		} else {
			evals++
		}
		if r.Sample != nil && len(samples) < 6 {
			samples = append(samples, r.Sample)
		}
		if r.Verdict == Violated {
			violated = append(violated, r)
		}
	}
	sort.Slice(violated, func(i, j int) bool { return violated[i].CaseID < violated[j].CaseID })

	exit := 0
	outDir := opt.VerifDir
	if v := os.Getenv("VERIF_OUT"); v != "" {
		outDir = v // self-tests on mutants write their evidence/replays elsewhere
	}
	replayDir := filepath.Join(outDir, "replays", opt.PropID)
	printedKnown := map[string]bool{}
	printedViol := map[string]int{}
	knownHit := map[string]int{}
	nViol := 0
	for _, r := range violated {
		for _, f := range r.Findings {
			matched := false
			for _, k := range known {
				if k.Property == opt.PropID && k.Status == "known" && keyMatches(k.Key, f.Key) {
					matched = true
					knownHit[k.Key]++
					if !printedKnown[k.Key] {
						printedKnown[k.Key] = true
						fmt.Printf("KNOWN-FINDING: property=%s %s [key=%s case=%s]\n", opt.PropID, k.What, f.Key, r.CaseID)
					}
				}
			}
			if matched {
				continue
			}
			nViol++
			exit = 1
			if printedViol[f.Key] >= 3 {
				printedViol[f.Key]++
				continue
			}
			printedViol[f.Key]++
			_ = os.MkdirAll(replayDir, 0o755)
			base := filepath.Join(replayDir, sanitize(r.CaseID)+"."+sanitize(f.Key))
			if len(base) > 200 {
				base = base[:200]
			}
			c := byID[r.CaseID]
			if replayMode {
				c = cases[0]
			}
			cb, _ := json.MarshalIndent(c, "", " ")
			_ = os.WriteFile(base+".case.json", cb, 0o644)
			_ = os.WriteFile(base+".log.txt", []byte(f.Key+"\n"+f.Detail+"\n\n"+strings.Join(r.Log, "\n")+"\n"), 0o644)
			fmt.Printf("VIOLATION property=%s replay=%s key=%s detail=%s\n", opt.PropID, base+".case.json", f.Key, oneLine(f.Detail, 300))
		}
	}
	for k, n := range printedViol {
		if n > 3 {
			fmt.Printf("NOTE %d more violations with key=%s\n", n-3, k)
		}
	}

	// Observation floors: a monitor that saw nothing must not pass.
	if !replayMode {
		floors := p.Floors(opt.Tier)
		var missing []string
		for k, min := range floors {
			if counters[k] < min {
				missing = append(missing, fmt.Sprintf("%s=%d<%d", k, counters[k], min))
			}
		}
		sort.Strings(missing)
		if len(missing) > 0 || len(all.results) == 0 || verdicts[Held]+verdicts[Violated] == 0 {
			_ = os.MkdirAll(replayDir, 0o755)
			path := filepath.Join(replayDir, "no-observation.json")
			b, _ := json.MarshalIndent(map[string]interface{}{"missing": missing, "verdicts": verdicts, "counters": counters}, "", " ")
			_ = os.WriteFile(path, b, 0o644)
			fmt.Printf("VIOLATION property=%s replay=%s key=%s/no-observation detail=too few observations: %v verdicts=%v\n", opt.PropID, path, opt.PropID, missing, verdicts)
			exit = 1
		}
	}

	wall := time.Since(start).Seconds()
	if !replayMode {
		cov := map[string]interface{}{
			"evaluations":         evals,
			"cases":               len(all.results),
			"distinct_nontrivial": len(fps),
			"rule":                p.Rule(),
			"samples":             samples,
			"events_observed":     counters,
			"verdicts":            verdicts,
			"inconclusive":        verdicts[Inconclusive],
			"child_crashes":       len(all.crashes),
			"hangs":               len(all.hangs),
			"known_findings_hit":  knownHit,
			"exhaustive":          p.Exhaustive(opt.Tier),
			"workers":             workers,
		}
		for k, s := range sets {
			var l []string
			for v := range s {
				l = append(l, v)
			}
			sort.Strings(l)
			if len(l) > 60 {
				cov[k+"_count"] = len(l)
				l = l[:60]
			}
			cov[k] = l
		}
		if len(samples) == 0 {
			cov["samples"] = []interface{}{map[string]string{"note": "no sample recorded"}}
		}
		ev := Evidence{PropertyID: opt.PropID, Tier: opt.Tier, Seed: int64(opt.Seed), Level: p.Level(), Coverage: cov, Assumptions: p.Assumptions(), WallS: wall, Violations: nViol}
		b, _ := json.MarshalIndent(ev, "", " ")
		_ = os.MkdirAll(filepath.Join(outDir, "evidence"), 0o755)
		_ = os.WriteFile(filepath.Join(outDir, "evidence", opt.PropID+".json"), b, 0o644)
	}
	if os.Getenv("VERIF_DEBUG_TIMES") != "" {
		sort.Slice(all.results, func(i, j int) bool { return all.results[i].WallMS > all.results[j].WallMS })
		for i := 0; i < 5 && i < len(all.results); i++ {
			fmt.Printf("SLOW %s %dms\n", all.results[i].CaseID, all.results[i].WallMS)
		}
	}
	fmt.Printf("SUMMARY property=%s tier=%s seed=%d cases=%d verdicts=%v distinct_nontrivial=%d violations=%d known=%d wall=%.1fs\n",
		opt.PropID, opt.Tier, opt.Seed, len(all.results), verdicts, len(fps), nViol, len(knownHit), wall)
	return exit
}

// lastInput returns the last "VERIF-INPUT ..." line a child printed before it died (hostile input about to be sent).
func lastInput(stderr string) string {
	end := len(stderr)
	if idx := panicRe.FindStringIndex(stderr); idx != nil {
		end = idx[0]
	}
	i := strings.LastIndex(stderr[:end], "VERIF-INPUT ")
	if i < 0 {
		return ""
	}
	line := stderr[i:end]
	if j := strings.IndexByte(line, '\n'); j >= 0 {
		line = line[:j]
	}
	if len(line) > 600 {
		line = line[:600]
	}
	return "[" + line + "] "
}

func panicTail(stderr string) string {
	idx := panicRe.FindStringIndex(stderr)
	if idx == nil {
		if len(stderr) > 4000 {
			return stderr[len(stderr)-4000:]
		}
		return stderr
	}
	s := stderr[idx[0]:]
	if len(s) > 8000 {
		s = s[:8000]
	}
	return s
}

func hangSite(stderr string) string {
	// first lime-go frame of any goroutine in the dump that is not the harness: coarse site for the key
	m := limeFrameRe.FindStringSubmatch(stderr)
	if m == nil {
		return "unknown-site"
	}
	site := m[1]
	if i := strings.Index(site, "(0x"); i >= 0 {
		site = site[:i]
	}
	site = strings.NewReplacer("(", "", ")", "", "*", "").Replace(site)
	return regexp.MustCompile(`0x[0-9a-f]+.*$`).ReplaceAllString(site, "")
}

func sanitize(s string) string {
	return regexp.MustCompile(`[^A-Za-z0-9_.\-]+`).ReplaceAllString(s, "_")
}

func oneLine(s string, n int) string {
	s = strings.ReplaceAll(s, "\n", " | ")
	if len(s) > n {
		s = s[:n] + "…"
	}
	return s
}
