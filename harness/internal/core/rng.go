package core

// Rng is a splitmix64 stream: deterministic, seedable, cheap.
type Rng struct{ s uint64 }

func NewRng(seed uint64) *Rng { return &Rng{s: seed ^ 0x9e3779b97f4a7c15} }

// Derive makes an independent stream from a seed and an index.
func Derive(seed uint64, idx ...uint64) *Rng {
	r := NewRng(seed)
	for _, i := range idx {
		r.s ^= (i + 0x632be59bd9b4e019) * 0xd6e8feb86659fd93
		r.Uint64()
	}
	return r
}

func (r *Rng) Uint64() uint64 {
	r.s += 0x9e3779b97f4a7c15
	z := r.s
	z = (z ^ (z >> 30)) * 0xbf58476d1ce4e5b9
	z = (z ^ (z >> 27)) * 0x94d049bb133111eb
	return z ^ (z >> 31)
}

func (r *Rng) Intn(n int) int {
	if n <= 0 {
		return 0
	}
	return int(r.Uint64() % uint64(n))
}

func (r *Rng) Bool() bool { return r.Uint64()&1 == 1 }

// Chance returns true with probability num/den.
func (r *Rng) Chance(num, den int) bool { return r.Intn(den) < num }

func (r *Rng) Pick(l []string) string { return l[r.Intn(len(l))] }

func (r *Rng) Perm(n int) []int {
	p := make([]int, n)
	for i := range p {
		p[i] = i
	}
	for i := n - 1; i > 0; i-- {
		j := r.Intn(i + 1)
		p[i], p[j] = p[j], p[i]
	}
	return p
}
