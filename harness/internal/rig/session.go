package rig

import (
	"context"
	"fmt"
	"net"
	"net/http"
	"os"
	"sync"
	"sync/atomic"
	"time"

	lime "github.com/takenet/lime-go"
)

// Flavours of transport the session rig can bring up.
const (
	InProc = "inproc"
	TCP    = "tcp"
	TLS    = "tls" // TCP upgraded to TLS by negotiation
	WS     = "ws"
	WSS    = "wss"
)

var AllFlavours = []string{InProc, TCP, TLS, WS, WSS}

var inprocCounter int64
var inprocMu sync.Mutex // serialises the harness' own use of the (unsynchronised) in-process listener registry

// NewInProcAddr returns a process-unique in-process address.
func NewInProcAddr() lime.InProcessAddr {
	return lime.InProcessAddr(fmt.Sprintf("verif-%d-%d", os.Getpid(), atomic.AddInt64(&inprocCounter, 1)))
}

// ServerRig is a real lime.Server with real listeners on loopback port 0.
type ServerRig struct {
	Srv        *lime.Server
	Config     *lime.ServerConfig
	Mux        *lime.EnvelopeMux
	listeners  map[string]lime.TransportListener
	InProcAddr lime.InProcessAddr
	ServeErr   chan error
	flavours   []string
	closed     bool
	mu         sync.Mutex
	addrs      map[string]string // bound addresses remembered for use after Close
	netAddrs   map[string]net.Addr
}

// DefaultServerConfig: guest authentication, none/tls encryption, deterministic node assignment.
func DefaultServerConfig() *lime.ServerConfig {
	cfg := lime.NewServerConfig()
	cfg.Node = lime.Node{Identity: lime.Identity{Name: "postmaster", Domain: "verif.local"}, Instance: "srv"}
	cfg.SchemeOpts = []lime.AuthenticationScheme{lime.AuthenticationSchemeGuest}
	cfg.EncryptOpts = []lime.SessionEncryption{lime.SessionEncryptionNone, lime.SessionEncryptionTLS}
	cfg.CompOpts = []lime.SessionCompression{lime.SessionCompressionNone}
	cfg.Authenticate = func(ctx context.Context, id lime.Identity, a lime.Authentication) (*lime.AuthenticationResult, error) {
		return lime.MemberAuthenticationResult(), nil
	}
	cfg.Register = func(ctx context.Context, n lime.Node, sc *lime.ServerChannel) (lime.Node, error) {
		inst := n.Instance
		if inst == "" {
			inst = "default"
		}
		return lime.Node{Identity: lime.Identity{Name: n.Name, Domain: "verif.local"}, Instance: inst}, nil
	}
	return cfg
}

// StartServer builds and starts a server on the given transport flavours (TLS shares the TCP listener).
func StartServer(cfg *lime.ServerConfig, mux *lime.EnvelopeMux, flavours []string, tcpReadLimit int64) (*ServerRig, error) {
	return startServer(cfg, mux, flavours, tcpReadLimit, 0)
}

// StartServerExtra is StartServer with additional TCP listeners (nobody dials them; they take part in Close).
func StartServerExtra(cfg *lime.ServerConfig, mux *lime.EnvelopeMux, flavours []string, extraTCP int) (*ServerRig, error) {
	return startServer(cfg, mux, flavours, 0, extraTCP)
}

func startServer(cfg *lime.ServerConfig, mux *lime.EnvelopeMux, flavours []string, tcpReadLimit int64, extraTCP int) (*ServerRig, error) {
	if mux == nil {
		mux = &lime.EnvelopeMux{}
	}
	r := &ServerRig{Config: cfg, Mux: mux, listeners: map[string]lime.TransportListener{}, ServeErr: make(chan error, 1), flavours: flavours}
	var bound []lime.BoundListener
	loop := func() net.Addr { return &net.TCPAddr{IP: net.IPv4(127, 0, 0, 1), Port: 0} }
	ordered := []string{}
	for _, f := range flavours {
		if f == InProc {
			ordered = append(ordered, f)
		}
	}
	for _, f := range flavours {
		if f != InProc {
			ordered = append(ordered, f)
		}
	}
	for _, f := range ordered {
		switch f {
		case InProc:
			if r.InProcAddr == "" {
				r.InProcAddr = NewInProcAddr()
				l := lime.NewInProcessTransportListener(r.InProcAddr)
				r.listeners[InProc] = l
				bound = append(bound, lime.NewBoundListener(l, r.InProcAddr))
			}
		case TCP, TLS:
			if r.listeners[TCP] == nil {
				l := lime.NewTCPTransportListener(&lime.TCPConfig{TLSConfig: ServerTLS(), ReadLimit: tcpReadLimit})
				r.listeners[TCP] = l
				bound = append(bound, lime.NewBoundListener(l, loop()))
			}
		case WS:
			l := lime.NewWebsocketTransportListener(&lime.WebsocketConfig{CheckOrigin: func(*http.Request) bool { return true }})
			r.listeners[WS] = l
			bound = append(bound, lime.NewBoundListener(l, loop()))
		case WSS:
			l := lime.NewWebsocketTransportListener(&lime.WebsocketConfig{TLSConfig: ServerTLS(), CheckOrigin: func(*http.Request) bool { return true }})
			r.listeners[WSS] = l
			bound = append(bound, lime.NewBoundListener(l, loop()))
		}
	}
	for i := 0; i < extraTCP; i++ {
		l := lime.NewTCPTransportListener(&lime.TCPConfig{})
		r.listeners[fmt.Sprintf("tcp-extra-%d", i)] = l
		bound = append(bound, lime.NewBoundListener(l, loop()))
	}
	r.Srv = lime.NewServer(cfg, mux, bound...)
	inprocMu.Lock()
	go func() { r.ServeErr <- r.Srv.ListenAndServe() }()
	// wait until every listener is bound
	deadline := time.Now().Add(10 * time.Second)
	ok := false
	for time.Now().Before(deadline) {
		ok = true
		for f, l := range r.listeners {
			if f == InProc {
				continue
			}
			if lime.VerifListenerAddr(l) == nil {
				ok = false
			}
		}
		if ok {
			break
		}
		select {
		case err := <-r.ServeErr:
			inprocMu.Unlock()
			return nil, fmt.Errorf("server ended while starting: %w", err)
		case <-time.After(2 * time.Millisecond):
		}
	}
	if r.InProcAddr != "" && len(r.listeners) == 1 {
		// only an in-process listener: it is registered synchronously in Listen; probe until ListenAndServe got there
		// (with other listeners present, the in-process one is listed first, so it is registered before they are bound)
		for i := 0; i < 2000; i++ {
			if t, err := lime.DialInProcess(r.InProcAddr, 1); err == nil {
				// a probe dial: complete nothing, just close it
				_ = t.Close()
				break
			}
			time.Sleep(time.Millisecond)
		}
	}
	inprocMu.Unlock()
	if !ok {
		return nil, fmt.Errorf("listeners did not come up")
	}
	r.addrs = map[string]string{}
	r.netAddrs = map[string]net.Addr{}
	for f, l := range r.listeners {
		if a := lime.VerifListenerAddr(l); a != nil {
			r.addrs[f] = a.String()
			r.netAddrs[f] = a
		}
	}
	return r, nil
}

// LastAddr is the address a listener was bound to (still known after Close).
func (r *ServerRig) LastAddr(f string) string { return r.addrs[f] }

// EstablishClientNoLock is EstablishClient without serialising the in-process registry access
// (used where concurrent dials during Close are the point).
func (r *ServerRig) EstablishClientNoLock(ctx context.Context, f string, chanBuf, inprocBuf int, id lime.Identity, instance string) (*lime.ClientChannel, *lime.Session, error) {
	var t lime.Transport
	var err error
	if f == InProc {
		t, err = lime.DialInProcess(r.InProcAddr, inprocBuf)
	} else {
		t, err = r.Dial(ctx, f, inprocBuf, nil)
	}
	if err != nil {
		return nil, nil, err
	}
	cc := lime.NewClientChannel(t, chanBuf)
	ses, err := cc.EstablishSession(ctx, lime.NoneCompressionSelector, EncryptSelector(f), id, lime.GuestAuthenticator, instance)
	if err != nil {
		_ = cc.Close()
		return nil, nil, err
	}
	if ses.State != lime.SessionStateEstablished {
		_ = cc.Close()
		return nil, ses, fmt.Errorf("session state %s (reason %v)", ses.State, ses.Reason)
	}
	return cc, ses, nil
}

// CloseNoLock closes the server without serialising in-process registry access.
func (r *ServerRig) CloseNoLock(wait time.Duration) (error, bool) {
	r.mu.Lock()
	if r.closed {
		r.mu.Unlock()
		return nil, true
	}
	r.closed = true
	r.mu.Unlock()
	_ = r.Srv.Close()
	select {
	case err := <-r.ServeErr:
		return err, true
	case <-time.After(wait):
		return nil, false
	}
}

// Addr returns the bound address of a listener flavour.
func (r *ServerRig) Addr(f string) net.Addr {
	if f == TLS {
		f = TCP
	}
	if a, ok := r.netAddrs[f]; ok {
		return a // remembered: still usable (as a dead address) after Close
	}
	if l, ok := r.listeners[f]; ok {
		return lime.VerifListenerAddr(l)
	}
	return nil
}

// Dial opens a client transport of the given flavour.
func (r *ServerRig) Dial(ctx context.Context, f string, inprocBuf int, tcpCfg *lime.TCPConfig) (lime.Transport, error) {
	switch f {
	case InProc:
		inprocMu.Lock()
		defer inprocMu.Unlock()
		return lime.DialInProcess(r.InProcAddr, inprocBuf)
	case TCP, TLS:
		cfg := tcpCfg
		if cfg == nil {
			cfg = &lime.TCPConfig{TLSConfig: ClientTLS()}
		}
		return lime.DialTcp(ctx, r.Addr(TCP), cfg)
	case WS:
		return lime.DialWebsocket(ctx, "ws://"+r.Addr(WS).String(), nil, nil)
	case WSS:
		return lime.DialWebsocket(ctx, "wss://"+r.Addr(WSS).String(), nil, ClientTLS())
	}
	return nil, fmt.Errorf("unknown flavour %s", f)
}

// DialVia dials the given address (a proxy in front of the server) with the flavour's client transport.
func DialVia(ctx context.Context, f string, addr net.Addr) (lime.Transport, error) {
	switch f {
	case TCP, TLS:
		return lime.DialTcp(ctx, addr, &lime.TCPConfig{TLSConfig: ClientTLS()})
	case WS:
		return lime.DialWebsocket(ctx, "ws://"+addr.String(), nil, nil)
	case WSS:
		return lime.DialWebsocket(ctx, "wss://"+addr.String(), nil, ClientTLS())
	}
	return nil, fmt.Errorf("no proxied dial for flavour %s", f)
}

// EncryptSelector returns the client selector appropriate for the flavour.
func EncryptSelector(f string) lime.EncryptionSelector {
	switch f {
	case TLS:
		return lime.TLSEncryptionSelector
	case WSS:
		return func(o []lime.SessionEncryption) lime.SessionEncryption {
			if len(o) > 0 {
				return o[0]
			}
			return lime.SessionEncryptionTLS
		}
	}
	return lime.NoneEncryptionSelector
}

// EstablishClient dials and establishes a bare ClientChannel.
func (r *ServerRig) EstablishClient(ctx context.Context, f string, chanBuf, inprocBuf int, id lime.Identity, instance string) (*lime.ClientChannel, *lime.Session, error) {
	t, err := r.Dial(ctx, f, inprocBuf, nil)
	if err != nil {
		return nil, nil, err
	}
	cc := lime.NewClientChannel(t, chanBuf)
	ses, err := cc.EstablishSession(ctx, lime.NoneCompressionSelector, EncryptSelector(f), id, lime.GuestAuthenticator, instance)
	if err != nil {
		_ = cc.Close()
		return nil, nil, err
	}
	if ses.State != lime.SessionStateEstablished {
		_ = cc.Close()
		return nil, ses, fmt.Errorf("session state %s (reason %v)", ses.State, ses.Reason)
	}
	return cc, ses, nil
}

// Close closes the server and waits (bounded) for ListenAndServe to return; returns its error.
func (r *ServerRig) Close(wait time.Duration) (error, bool) {
	r.mu.Lock()
	if r.closed {
		r.mu.Unlock()
		return nil, true
	}
	r.closed = true
	r.mu.Unlock()
	inprocMu.Lock()
	_ = r.Srv.Close()
	inprocMu.Unlock()
	select {
	case err := <-r.ServeErr:
		return err, true
	case <-time.After(wait):
		return nil, false
	}
}
