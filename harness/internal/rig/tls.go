// Package rig holds the shared engines: TLS material, transport pairs over faultconn, scripted raw peers,
// session rigs over the real listeners, goroutine census.
package rig

import (
	"crypto/ecdsa"
	"crypto/elliptic"
	"crypto/rand"
	"crypto/tls"
	"crypto/x509"
	"crypto/x509/pkix"
	"math/big"
	"net"
	"sync"
	"time"
)

var (
	tlsOnce   sync.Once
	serverTLS *tls.Config
	clientTLS *tls.Config
)

func genTLS() {
	key, err := ecdsa.GenerateKey(elliptic.P256(), rand.Reader)
	if err != nil {
		panic(err)
	}
	tmpl := &x509.Certificate{
		SerialNumber:          big.NewInt(1),
		Subject:               pkix.Name{CommonName: "localhost"},
		NotBefore:             time.Now().Add(-time.Hour),
		NotAfter:              time.Now().Add(240 * time.Hour),
		KeyUsage:              x509.KeyUsageDigitalSignature | x509.KeyUsageCertSign,
		ExtKeyUsage:           []x509.ExtKeyUsage{x509.ExtKeyUsageServerAuth},
		BasicConstraintsValid: true,
		IsCA:                  true,
		DNSNames:              []string{"localhost"},
		IPAddresses:           []net.IP{net.IPv4(127, 0, 0, 1)},
	}
	der, err := x509.CreateCertificate(rand.Reader, tmpl, tmpl, &key.PublicKey, key)
	if err != nil {
		panic(err)
	}
	cert := tls.Certificate{Certificate: [][]byte{der}, PrivateKey: key}
	serverTLS = &tls.Config{Certificates: []tls.Certificate{cert}, SessionTicketsDisabled: true}
	clientTLS = &tls.Config{InsecureSkipVerify: true, ServerName: "localhost"}
}

// ServerTLS returns the per-process server TLS configuration (self-signed P-256).
func ServerTLS() *tls.Config {
	tlsOnce.Do(genTLS)
	return serverTLS.Clone()
}

// ClientTLS returns a client configuration that accepts the per-process certificate.
func ClientTLS() *tls.Config {
	tlsOnce.Do(genTLS)
	return clientTLS.Clone()
}

// ServerTLSVia returns a server configuration that supplies the per-process certificate in one of the three ways
// crypto/tls accepts: "certs" (Certificates), "getcert" (GetCertificate only), "getconfig" (GetConfigForClient only).
func ServerTLSVia(kind string) *tls.Config {
	base := ServerTLS()
	switch kind {
	case "getcert":
		cert := base.Certificates[0]
		return &tls.Config{GetCertificate: func(*tls.ClientHelloInfo) (*tls.Certificate, error) { return &cert, nil }}
	case "getconfig":
		return &tls.Config{GetConfigForClient: func(*tls.ClientHelloInfo) (*tls.Config, error) { return ServerTLS(), nil }}
	}
	return base
}
