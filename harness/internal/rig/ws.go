package rig

import (
	"context"
	"crypto/tls"
	"fmt"
	"net"
	"net/http"
	"time"

	"github.com/gorilla/websocket"
	lime "github.com/takenet/lime-go"
)

// WSRaw is a real WebSocket transport listener plus helpers to connect raw gorilla clients to it.
type WSRaw struct {
	L    lime.TransportListener
	Addr net.Addr
	TLS  bool
}

// NewWSRaw starts a real websocket listener on loopback port 0.
func NewWSRaw(useTLS bool) (*WSRaw, error) {
	cfg := &lime.WebsocketConfig{CheckOrigin: func(r *http.Request) bool { return true }}
	if useTLS {
		cfg.TLSConfig = ServerTLS()
	}
	l := lime.NewWebsocketTransportListener(cfg)
	if err := l.Listen(context.Background(), &net.TCPAddr{IP: net.IPv4(127, 0, 0, 1), Port: 0}); err != nil {
		return nil, err
	}
	addr := lime.VerifListenerAddr(l)
	if addr == nil {
		_ = l.Close()
		return nil, fmt.Errorf("no listener address")
	}
	return &WSRaw{L: l, Addr: addr, TLS: useTLS}, nil
}

func (w *WSRaw) URL() string {
	if w.TLS {
		return "wss://" + w.Addr.String()
	}
	return "ws://" + w.Addr.String()
}

// DialRaw connects a raw gorilla client and returns it with the server-side lime transport.
func (w *WSRaw) DialRaw() (*websocket.Conn, lime.Transport, error) {
	d := websocket.Dialer{Subprotocols: []string{"lime"}, HandshakeTimeout: 10 * time.Second}
	if w.TLS {
		d.TLSClientConfig = &tls.Config{InsecureSkipVerify: true}
	}
	type acc struct {
		t   lime.Transport
		err error
	}
	ch := make(chan acc, 1)
	go func() {
		ctx, cancel := context.WithTimeout(context.Background(), 10*time.Second)
		defer cancel()
		t, err := w.L.Accept(ctx)
		ch <- acc{t, err}
	}()
	c, _, err := d.Dial(w.URL(), nil)
	if err != nil {
		return nil, nil, err
	}
	a := <-ch
	if a.err != nil {
		c.Close()
		return nil, nil, a.err
	}
	return c, a.t, nil
}

func (w *WSRaw) Close() { _ = w.L.Close() }
