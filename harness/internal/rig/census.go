package rig

import (
	"os"
	"regexp"
	"runtime"
	"sort"
	"strings"
	"time"
)

// Goroutine is one parsed goroutine of a runtime.Stack(all) dump.
type Goroutine struct {
	ID        string
	State     string
	Frames    []string // function names, innermost first
	CreatedBy string
	Raw       string
}

var goHeader = regexp.MustCompile(`^goroutine (\d+) \[([^\]]*)\]:`)

// Snapshot parses all goroutines.
func Snapshot() []Goroutine {
	buf := make([]byte, 1<<20)
	for {
		n := runtime.Stack(buf, true)
		if n < len(buf) {
			buf = buf[:n]
			break
		}
		buf = make([]byte, 2*len(buf))
	}
	var out []Goroutine
	for _, block := range strings.Split(string(buf), "\n\n") {
		lines := strings.Split(block, "\n")
		if len(lines) == 0 {
			continue
		}
		m := goHeader.FindStringSubmatch(lines[0])
		if m == nil {
			continue
		}
		g := Goroutine{ID: m[1], State: m[2], Raw: block}
		for _, l := range lines[1:] {
			if strings.HasPrefix(l, "\t") {
				continue
			}
			if strings.HasPrefix(l, "created by ") {
				g.CreatedBy = strings.TrimPrefix(l, "created by ")
				if i := strings.Index(g.CreatedBy, " in goroutine"); i >= 0 {
					g.CreatedBy = g.CreatedBy[:i]
				}
				continue
			}
			if i := strings.LastIndex(l, "("); i > 0 {
				l = l[:i]
			}
			g.Frames = append(g.Frames, l)
		}
		out = append(out, g)
	}
	return out
}

const limePkg = "github.com/takenet/lime-go."

// LimeOwned reports whether a goroutine belongs to the library: any frame or its creator is in lime-go.
func (g Goroutine) LimeOwned() bool {
	if strings.Contains(g.CreatedBy, limePkg) {
		return true
	}
	for _, f := range g.Frames {
		if strings.Contains(f, limePkg) {
			return true
		}
	}
	return false
}

// Site is a short description: innermost lime-go frame (or creator).
func (g Goroutine) Site() string {
	for _, f := range g.Frames {
		if strings.Contains(f, limePkg) {
			return strings.TrimPrefix(f, "github.com/takenet/")
		}
	}
	return "created by " + strings.TrimPrefix(g.CreatedBy, "github.com/takenet/")
}

// LimeGoroutines returns the lime-owned goroutines, optionally excluding those whose stack matches one of the substrings.
func LimeGoroutines(exclude ...string) []Goroutine {
	var out []Goroutine
next:
	for _, g := range Snapshot() {
		if !g.LimeOwned() {
			continue
		}
		for _, ex := range exclude {
			if strings.Contains(g.Raw, ex) {
				continue next
			}
		}
		out = append(out, g)
	}
	return out
}

// Sites summarises goroutines as sorted "site xN" strings.
func Sites(gs []Goroutine) []string {
	m := map[string]int{}
	for _, g := range gs {
		m[g.Site()]++
	}
	var out []string
	for k, n := range m {
		out = append(out, k+" x"+itoa(n))
	}
	sort.Strings(out)
	return out
}

func itoa(n int) string {
	if n == 0 {
		return "0"
	}
	s := ""
	for n > 0 {
		s = string(rune('0'+n%10)) + s
		n /= 10
	}
	return s
}

// WaitLimeGoroutines polls until the number of lime-owned goroutines (after exclusions) is <= baseline, or the
// bound elapses; returns what is left.
func WaitLimeGoroutines(baseline int, bound time.Duration, exclude ...string) []Goroutine {
	deadline := time.Now().Add(bound)
	for {
		gs := LimeGoroutines(exclude...)
		if len(gs) <= baseline || time.Now().After(deadline) {
			return gs
		}
		time.Sleep(20 * time.Millisecond)
	}
}

// SocketFDs counts socket descriptors of this process.
func SocketFDs() int {
	ents, err := os.ReadDir("/proc/self/fd")
	if err != nil {
		return -1
	}
	n := 0
	for _, e := range ents {
		if l, err := os.Readlink("/proc/self/fd/" + e.Name()); err == nil && strings.HasPrefix(l, "socket:") {
			n++
		}
	}
	return n
}

// StableLimeGoroutineCount samples the census until it has not changed over four consecutive samples 5 ms apart (at
// most ~1 s): a server that has just started may still be spawning its accept/serve goroutines.
func StableLimeGoroutineCount(exclude ...string) int {
	last, same := -1, 0
	for i := 0; i < 200; i++ {
		n := len(LimeGoroutines(exclude...))
		if n == last {
			same++
			if same >= 3 {
				return n
			}
		} else {
			last, same = n, 0
		}
		time.Sleep(5 * time.Millisecond)
	}
	return last
}
