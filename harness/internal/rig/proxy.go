package rig

import (
	"bytes"
	"net"
	"sync"
	"sync/atomic"
	"syscall"
	"time"
)

// Proxy is a TCP man-in-the-middle between a real client and a real server socket: it taps both directions and can
// inject bytes towards the client, cut abruptly (RST), half-close or stall.
type Proxy struct {
	ln     net.Listener
	target string
	mu     sync.Mutex
	conns  []*ProxyConn
	closed bool
	rcvBuf int
}

// ProxyConn is one proxied connection.
type ProxyConn struct {
	Index          int
	client, server net.Conn
	wmu            sync.Mutex // serialises writes towards the client (copy loop and injections)
	mu             sync.Mutex
	c2s, s2c       []byte
	Opened         time.Time
	closed         bool
	stallC2S       int32
	stallS2C       int32
	poll           bool
}

// StallS2C stops (or resumes) forwarding the server's bytes: with a small receive buffer on the proxy's server leg
// (NewProxyOpts), what the server writes next stays in the server's own send queue.
func (pc *ProxyConn) StallS2C(on bool) {
	v := int32(0)
	if on {
		v = 1
	}
	atomic.StoreInt32(&pc.stallS2C, v)
}

// StallC2S stops (or resumes) forwarding the client's bytes: the proxy no longer reads from the client, so the
// client's writes block once the socket buffers are full - a peer that is not reading.
func (pc *ProxyConn) StallC2S(on bool) {
	v := int32(0)
	if on {
		v = 1
	}
	atomic.StoreInt32(&pc.stallC2S, v)
}

func NewProxy(target string) (*Proxy, error) { return NewProxyOpts(target, 0) }

// NewProxyOpts: serverLegRcvBuf > 0 sets the receive buffer of the proxy's connection to the server before it
// connects (a small advertised window).
func NewProxyOpts(target string, serverLegRcvBuf int) (*Proxy, error) {
	ln, err := net.Listen("tcp", "127.0.0.1:0")
	if err != nil {
		return nil, err
	}
	p := &Proxy{ln: ln, target: target, rcvBuf: serverLegRcvBuf}
	go p.loop()
	return p, nil
}

func (p *Proxy) Addr() net.Addr { return p.ln.Addr() }

func (p *Proxy) loop() {
	for {
		c, err := p.ln.Accept()
		if err != nil {
			return
		}
		d := net.Dialer{Timeout: 5 * time.Second}
		if p.rcvBuf > 0 {
			rb := p.rcvBuf
			d.Control = func(network, address string, c syscall.RawConn) error {
				return c.Control(func(fd uintptr) {
					_ = syscall.SetsockoptInt(int(fd), syscall.SOL_SOCKET, syscall.SO_RCVBUF, rb)
				})
			}
		}
		s, err := d.Dial("tcp", p.target)
		if err != nil {
			_ = c.Close()
			continue
		}
		p.mu.Lock()
		pc := &ProxyConn{Index: len(p.conns), client: c, server: s, Opened: time.Now(), poll: p.rcvBuf > 0}
		p.conns = append(p.conns, pc)
		p.mu.Unlock()
		go pc.copy(true)
		go pc.copy(false)
	}
}

func (pc *ProxyConn) copy(c2s bool) {
	src, dst := pc.server, pc.client
	if c2s {
		src, dst = pc.client, pc.server
	}
	buf := make([]byte, 32*1024)
	for {
		for (c2s && atomic.LoadInt32(&pc.stallC2S) == 1) || (!c2s && atomic.LoadInt32(&pc.stallS2C) == 1) {
			time.Sleep(5 * time.Millisecond)
			pc.mu.Lock()
			closed := pc.closed
			pc.mu.Unlock()
			if closed {
				return
			}
		}
		if pc.poll {
			// a blocked Read would let one more chunk through after a stall was requested
			_ = src.SetReadDeadline(time.Now().Add(3 * time.Millisecond))
		}
		n, err := src.Read(buf)
		if ne, ok := err.(net.Error); ok && ne.Timeout() && pc.poll {
			err = nil
		}
		if n > 0 {
			pc.mu.Lock()
			if c2s {
				pc.c2s = append(pc.c2s, buf[:n]...)
			} else {
				pc.s2c = append(pc.s2c, buf[:n]...)
			}
			pc.mu.Unlock()
			if c2s {
				_, _ = dst.Write(buf[:n])
			} else {
				pc.wmu.Lock()
				_, _ = dst.Write(buf[:n])
				pc.wmu.Unlock()
			}
		}
		if err != nil {
			// propagate the end of this direction
			if tc, ok := dst.(*net.TCPConn); ok {
				_ = tc.CloseWrite()
			}
			return
		}
	}
}

// Conns returns the connections seen so far.
func (p *Proxy) Conns() []*ProxyConn {
	p.mu.Lock()
	defer p.mu.Unlock()
	return append([]*ProxyConn{}, p.conns...)
}

// Current returns the most recent connection (nil if none).
func (p *Proxy) Current() *ProxyConn {
	p.mu.Lock()
	defer p.mu.Unlock()
	if len(p.conns) == 0 {
		return nil
	}
	return p.conns[len(p.conns)-1]
}

// InjectToClient writes raw bytes to the client as if the server had sent them.
func (pc *ProxyConn) InjectToClient(b []byte) {
	pc.wmu.Lock()
	_, _ = pc.client.Write(b)
	pc.wmu.Unlock()
}

// Reset cuts both sides abruptly (RST).
func (pc *ProxyConn) Reset() {
	for _, c := range []net.Conn{pc.client, pc.server} {
		if tc, ok := c.(*net.TCPConn); ok {
			_ = tc.SetLinger(0)
		}
		_ = c.Close()
	}
}

// HalfCloseToClient ends the server->client direction only.
func (pc *ProxyConn) HalfCloseToClient() {
	if tc, ok := pc.client.(*net.TCPConn); ok {
		_ = tc.CloseWrite()
	}
}

// C2S returns a copy of the bytes the client sent; S2C of those the server sent.
func (pc *ProxyConn) C2S() []byte {
	pc.mu.Lock()
	defer pc.mu.Unlock()
	return append([]byte(nil), pc.c2s...)
}

func (pc *ProxyConn) S2C() []byte {
	pc.mu.Lock()
	defer pc.mu.Unlock()
	return append([]byte(nil), pc.s2c...)
}

// EstablishedSeen reports whether an established session envelope passed towards the client on this connection.
func (pc *ProxyConn) EstablishedSeen() bool {
	return bytes.Contains(pc.S2C(), []byte(`"state":"established"`))
}

func (p *Proxy) Close() {
	p.mu.Lock()
	p.closed = true
	conns := append([]*ProxyConn{}, p.conns...)
	p.mu.Unlock()
	_ = p.ln.Close()
	for _, c := range conns {
		c.mu.Lock()
		c.closed = true
		c.mu.Unlock()
		_ = c.client.Close()
		_ = c.server.Close()
	}
}

// WSTextFrame builds an unmasked (server to client) WebSocket text frame.
func WSTextFrame(payload []byte) []byte {
	var out []byte
	out = append(out, 0x81)
	n := len(payload)
	switch {
	case n < 126:
		out = append(out, byte(n))
	case n < 65536:
		out = append(out, 126, byte(n>>8), byte(n))
	default:
		out = append(out, 127, 0, 0, 0, 0, byte(n>>24), byte(n>>16), byte(n>>8), byte(n))
	}
	return append(out, payload...)
}
