package rig

import (
	lime "github.com/takenet/lime-go"

	"verif/harness/internal/faultconn"
)

// TransportPair is two real tcpTransports (hook constructor) joined by a faultconn.
type TransportPair struct {
	A, B   lime.Transport // A: client role, B: server role
	CA, CB *faultconn.Conn
}

func NewTransportPair(o faultconn.Options, cfgA, cfgB *lime.TCPConfig) *TransportPair {
	ca, cb := faultconn.Pair(o)
	return &TransportPair{
		A:  lime.VerifNewTCPTransport(ca, false, cfgA),
		B:  lime.VerifNewTCPTransport(cb, true, cfgB),
		CA: ca, CB: cb,
	}
}

// Close closes both transports at once: a closing transport lingers (bounded) for its peer's close, so closing them
// one after the other would make every pair wait out the first one's linger.
func (tp *TransportPair) Close() {
	done := make(chan struct{})
	go func() {
		_ = tp.A.Close()
		close(done)
	}()
	_ = tp.B.Close()
	<-done
}
