package rig

import (
	"bufio"
	"encoding/json"
	"errors"
	"io"
	"net"
	"time"
)

// RawPeer speaks newline-delimited JSON over a net.Conn and decodes with encoding/json into generic maps
// (never with lime-go's decoders, so that a symmetric codec bug cannot hide).
type RawPeer struct {
	Conn net.Conn
	rd   *bufio.Reader
	dec  *json.Decoder
}

func NewRawPeer(c net.Conn) *RawPeer {
	p := &RawPeer{Conn: c}
	p.reset()
	return p
}

func (p *RawPeer) reset() {
	p.rd = bufio.NewReaderSize(p.Conn, 1<<16)
	p.dec = json.NewDecoder(p.rd)
}

// Rebind switches the peer to another connection (e.g. after a TLS upgrade).
func (p *RawPeer) Rebind(c net.Conn) {
	p.Conn = c
	p.reset()
}

func (p *RawPeer) SendRaw(b []byte) error {
	_ = p.Conn.SetWriteDeadline(time.Now().Add(10 * time.Second))
	_, err := p.Conn.Write(b)
	return err
}

func (p *RawPeer) SendJSON(v interface{}) error {
	b, err := json.Marshal(v)
	if err != nil {
		return err
	}
	return p.SendRaw(append(b, '\n'))
}

// ErrPeerTimeout is returned by Read when nothing arrived within the timeout.
var ErrPeerTimeout = errors.New("rawpeer: timeout")

// Read returns the next JSON object sent by the library, io.EOF (or another error) when the connection ended,
// or ErrPeerTimeout.
func (p *RawPeer) Read(timeout time.Duration) (map[string]interface{}, error) {
	_ = p.Conn.SetReadDeadline(time.Now().Add(timeout))
	var m map[string]interface{}
	err := p.dec.Decode(&m)
	if err != nil {
		var ne net.Error
		if errors.As(err, &ne) && ne.Timeout() {
			// a json.Decoder latches errors: rebuild it over the buffered remainder
			p.dec = json.NewDecoder(io.MultiReader(p.dec.Buffered(), p.rd))
			return nil, ErrPeerTimeout
		}
		return nil, err
	}
	return m, nil
}

// WaitClosed reports whether the other side closes the connection (EOF / reset) within the timeout;
// anything received meanwhile is returned.
func (p *RawPeer) WaitClosed(timeout time.Duration) (closed bool, extra []map[string]interface{}) {
	deadline := time.Now().Add(timeout)
	for {
		left := time.Until(deadline)
		if left <= 0 {
			return false, extra
		}
		m, err := p.Read(left)
		if err == nil {
			extra = append(extra, m)
			continue
		}
		if err == ErrPeerTimeout {
			return false, extra
		}
		return true, extra
	}
}

func (p *RawPeer) Close() { _ = p.Conn.Close() }
