// Package hs is the handshake explorer: it runs the real Server (through a harness TransportListener that hands out
// real tcpTransports over faultconn) against scripted raw clients, records a complete trace per run, and labels every
// script step with a small reference classifier (DESIGN.md Appendix A).
package hs

import (
	"context"
	"crypto/tls"
	"encoding/base64"
	"encoding/json"
	"errors"
	"fmt"
	"hash/fnv"
	"io"
	"net"
	"runtime"
	"strings"
	"sync"
	"time"

	lime "github.com/takenet/lime-go"

	"verif/harness/internal/faultconn"
	"verif/harness/internal/rig"
)

// Config is one server configuration of the lattice.
type Config struct {
	Name       string   `json:"name"`
	Comp       []string `json:"comp"`
	Enc        []string `json:"enc"`
	Schemes    []string `json:"schemes"`
	TLSCapable bool     `json:"tls_capable"`
	AuthSource string   `json:"auth_source"` // tape | builder | builder-noauth
	Tape       []string `json:"tape"`        // outcomes per Authenticate invocation: member authority unknown norole roundtrip roundtrip-norole error (last repeats)
	Register   string   `json:"register"`    // echo | assign | error
	// ClientSkipsTLS: the scripted client does not perform the TLS handshake after a tls confirmation (keeps sending cleartext).
	ClientSkipsTLS bool `json:"client_skips_tls,omitempty"`
	// TLSVia: how the connection's TLS configuration supplies its certificate: "" (Certificates) | getcert | getconfig
	TLSVia string `json:"tls_via,omitempty"`
}

func (c Config) Key() string {
	k := fmt.Sprintf("%s|%s|%s|tls=%v|%s|%s|%s|skip=%v", strings.Join(c.Comp, ","), strings.Join(c.Enc, ","), strings.Join(c.Schemes, ","), c.TLSCapable, c.AuthSource, strings.Join(c.Tape, ","), c.Register, c.ClientSkipsTLS)
	if c.TLSVia != "" {
		k += "|via=" + c.TLSVia
	}
	return k
}

// Ev is one recorded event.
type Ev struct {
	T         string                 `json:"t"` // send recv auth register established finished state handler tls-up tls-fail closed open stuck disconnect
	Step      int                    `json:"step"`
	Sym       string                 `json:"sym,omitempty"`
	Raw       string                 `json:"raw,omitempty"`
	Env       map[string]interface{} `json:"env,omitempty"`
	OverTLS   bool                   `json:"over_tls,omitempty"`
	Identity  string                 `json:"identity,omitempty"`
	AuthType  string                 `json:"auth_type,omitempty"`
	AuthJSON  string                 `json:"auth_json,omitempty"`
	Enc       string                 `json:"enc,omitempty"`
	Comp      string                 `json:"comp,omitempty"`
	Outcome   string                 `json:"outcome,omitempty"`
	Candidate string                 `json:"candidate,omitempty"`
	Node      string                 `json:"node,omitempty"`
	SessionID string                 `json:"session_id,omitempty"`
	From      string                 `json:"from,omitempty"`
	To        string                 `json:"to,omitempty"`
	State     string                 `json:"state,omitempty"` // ServerChannel.State() sampled (register/established)
	Detail    string                 `json:"detail,omitempty"`
}

// Trace is the record of one run.
type Trace struct {
	Config      Config   `json:"config"`
	Script      []string `json:"script"`
	Events      []Ev     `json:"events"`
	SessionID   string   `json:"session_id"` // id of the first envelope the server emitted
	ClosedAfter int      `json:"closed_after"` // index of the step after which the server closed the connection (-1: never before the script ended)
	OpenAtEnd   bool     `json:"open_at_end"`  // the server was still reading (connection open) when the script ended
	Stuck       bool     `json:"stuck"`        // neither closed nor reading within the watchdog
	StepsRun    int      `json:"steps_run"`
	WireC2S     []byte   `json:"-"`
	WireS2C     []byte   `json:"-"`
	TLSFromC2S  int      `json:"tls_from_c2s"` // offset in WireC2S where the client switched to TLS (-1 none)
	TLSFromS2C  int      `json:"tls_from_s2c"` // offset in WireS2C right after the tls confirmation line (-1 none)
	ServerNode  string   `json:"server_node"`
	SettledLate bool     `json:"settled_late,omitempty"`
}

func (t *Trace) add(e Ev) { t.Events = append(t.Events, e) }

// Recv returns the envelopes the server emitted, in order.
func (t *Trace) Recv() []Ev {
	var out []Ev
	for _, e := range t.Events {
		if e.T == "recv" {
			out = append(out, e)
		}
	}
	return out
}

func (t *Trace) Count(kind string) int {
	n := 0
	for _, e := range t.Events {
		if e.T == kind {
			n++
		}
	}
	return n
}

// ---- harness listener ------------------------------------------------------------------------------

type faultAddr string

func (a faultAddr) Network() string { return "faultconn" }
func (a faultAddr) String() string  { return string(a) }

// FaultListener implements lime.TransportListener: Accept hands out transports pushed by the harness.
type FaultListener struct {
	ch   chan lime.Transport
	done chan struct{}
	once sync.Once
}

func NewFaultListener() *FaultListener {
	return &FaultListener{ch: make(chan lime.Transport), done: make(chan struct{})}
}

func (l *FaultListener) Listen(ctx context.Context, addr net.Addr) error { return nil }

func (l *FaultListener) Accept(ctx context.Context) (lime.Transport, error) {
	select {
	case <-ctx.Done():
		return nil, ctx.Err()
	case <-l.done:
		return nil, errors.New("fault listener closed")
	case t := <-l.ch:
		return t, nil
	}
}

func (l *FaultListener) Close() error {
	l.once.Do(func() { close(l.done) })
	return nil
}

func (l *FaultListener) Push(t lime.Transport) bool {
	select {
	case l.ch <- t:
		return true
	case <-l.done:
		return false
	case <-time.After(10 * time.Second):
		return false
	}
}

func (l *FaultListener) Bound() lime.BoundListener {
	return lime.NewBoundListener(l, faultAddr("faultconn-listener"))
}

// ---- explorer ---------------------------------------------------------------------------------------

const ServerNodeStr = "postmaster@verif.local/srv"

// GoodPassword etc. are what the builder-mode authenticators accept.
const (
	GoodPassword = "good-pass"
	GoodKey      = "good-key"
	GoodToken    = "good-token"
	GuestUUID    = "7b6e1c0a-1f0e-4c6a-9d2b-3a5c8e9f0a1b"
)

type runState struct {
	mu        sync.Mutex
	trace     *Trace
	cut       func()
	transport lime.Transport
	step      int
	authCalls int
	closed    bool
}

// Explorer owns one real Server for one configuration; runs are sequential.
type Explorer struct {
	Cfg      Config
	srv      *lime.Server
	lst      *FaultListener
	serveErr chan error

	mu       sync.Mutex
	cur      *runState
	estab    map[string]int // Established callback count per session id
	finished map[string]int
	states   map[string][]string // state transitions per session id (server side)
	handlers int
}

func toEnc(l []string) []lime.SessionEncryption {
	out := make([]lime.SessionEncryption, 0, len(l))
	for _, s := range l {
		out = append(out, lime.SessionEncryption(s))
	}
	return out
}
func toComp(l []string) []lime.SessionCompression {
	out := make([]lime.SessionCompression, 0, len(l))
	for _, s := range l {
		out = append(out, lime.SessionCompression(s))
	}
	return out
}
func toSchemes(l []string) []lime.AuthenticationScheme {
	out := make([]lime.AuthenticationScheme, 0, len(l))
	for _, s := range l {
		out = append(out, lime.AuthenticationScheme(s))
	}
	return out
}

var stateHookOnce sync.Once
var stateSinks sync.Map // *Explorer -> true

func installStateHook() {
	stateHookOnce.Do(func() {
		lime.VerifSetStateObserver(func(client bool, sessionID string, from, to lime.SessionState) {
			if client {
				return
			}
			stateSinks.Range(func(k, _ interface{}) bool {
				k.(*Explorer).onState(sessionID, string(from), string(to))
				return true
			})
		})
	})
}

func (e *Explorer) onState(id, from, to string) {
	e.mu.Lock()
	e.states[id] = append(e.states[id], from+">"+to)
	cur := e.cur
	e.mu.Unlock()
	if cur != nil {
		cur.mu.Lock()
		if !cur.closed {
			cur.trace.add(Ev{T: "state", Step: cur.step, SessionID: id, From: from, To: to})
		}
		cur.mu.Unlock()
	}
}

func describeAuth(a lime.Authentication) (string, string) {
	if a == nil {
		return "nil", "null"
	}
	b, _ := json.Marshal(a)
	return fmt.Sprintf("%T", a), string(b)
}

// NewExplorer builds and starts the server for cfg.
func NewExplorer(cfg Config) (*Explorer, error) {
	installStateHook()
	e := &Explorer{Cfg: cfg, lst: NewFaultListener(), serveErr: make(chan error, 1), estab: map[string]int{}, finished: map[string]int{}, states: map[string][]string{}}
	node := lime.ParseNode(ServerNodeStr)

	record := func(ev Ev) {
		e.mu.Lock()
		cur := e.cur
		e.mu.Unlock()
		if cur == nil {
			return
		}
		cur.mu.Lock()
		ev.Step = cur.step
		if !cur.closed {
			cur.trace.add(ev)
		}
		cur.mu.Unlock()
	}
	sample := func() (string, string) {
		e.mu.Lock()
		cur := e.cur
		e.mu.Unlock()
		if cur == nil || cur.transport == nil {
			return "?", "?"
		}
		return string(cur.transport.Encryption()), string(cur.transport.Compression())
	}

	tapeAuth := func(ctx context.Context, id lime.Identity, a lime.Authentication) (*lime.AuthenticationResult, error) {
		e.mu.Lock()
		cur := e.cur
		e.mu.Unlock()
		idx := 0
		if cur != nil {
			cur.mu.Lock()
			idx = cur.authCalls
			cur.authCalls++
			cur.mu.Unlock()
		}
		outcome := "member"
		if len(cfg.Tape) > 0 {
			if idx < len(cfg.Tape) {
				outcome = cfg.Tape[idx]
			} else {
				outcome = cfg.Tape[len(cfg.Tape)-1]
			}
		}
		at, aj := describeAuth(a)
		enc, comp := sample()
		record(Ev{T: "auth", Identity: id.String(), AuthType: at, AuthJSON: aj, Enc: enc, Comp: comp, Outcome: outcome})
		switch outcome {
		case "member":
			return lime.MemberAuthenticationResult(), nil
		case "member+cut":
			// the peer vanishes while the authenticator is still working
			if cur != nil && cur.cut != nil {
				cur.cut()
			}
			return lime.MemberAuthenticationResult(), nil
		case "unknown+cut":
			// the peer vanishes while the authenticator is about to refuse it: the failed session cannot be sent
			if cur != nil && cur.cut != nil {
				cur.cut()
			}
			return lime.UnknownAuthenticationResult(), nil
		case "authority":
			return lime.AuthorityAuthenticationResult(), nil
		case "unknown":
			return lime.UnknownAuthenticationResult(), nil
		case "norole":
			return &lime.AuthenticationResult{}, nil
		case "roundtrip":
			return &lime.AuthenticationResult{Role: lime.DomainRoleUnknown, RoundTrip: &lime.PlainAuthentication{Password: "cm91bmQ="}}, nil
		case "roundtrip-norole":
			return &lime.AuthenticationResult{RoundTrip: &lime.KeyAuthentication{Key: "cnQ="}}, nil
		default:
			return nil, errors.New("authentication backend failure (tape)")
		}
	}
	register := func(ctx context.Context, cand lime.Node, sc *lime.ServerChannel) (lime.Node, error) {
		var out lime.Node
		var err error
		switch cfg.Register {
		case "assign":
			out = lime.Node{Identity: lime.Identity{Name: "assigned-" + cand.Name, Domain: "verif.local"}, Instance: "inst-assigned"}
		case "error":
			err = errors.New("registration failure (tape)")
		default:
			out = cand
			if out.Instance == "" {
				out.Instance = "default"
			}
			if out.Domain == "" {
				out.Domain = "verif.local"
			}
		}
		ev := Ev{T: "register", Candidate: cand.String(), Node: out.String(), State: string(sc.State()), SessionID: sc.ID()}
		if err != nil {
			ev.Outcome = "error"
		}
		record(ev)
		return out, err
	}

	mux := &lime.EnvelopeMux{}
	onHandler := func(kind string) {
		e.mu.Lock()
		e.handlers++
		e.mu.Unlock()
		record(Ev{T: "handler", Detail: kind})
	}
	mux.MessageHandlerFunc(nil, func(ctx context.Context, m *lime.Message, s lime.Sender) error { onHandler("message"); return nil })
	mux.NotificationHandlerFunc(nil, func(ctx context.Context, m *lime.Notification) error { onHandler("notification"); return nil })
	mux.RequestCommandHandlerFunc(nil, func(ctx context.Context, m *lime.RequestCommand, s lime.Sender) error { onHandler("request"); return nil })
	mux.ResponseCommandHandlerFunc(nil, func(ctx context.Context, m *lime.ResponseCommand, s lime.Sender) error {
		onHandler("response")
		return nil
	})

	var scfg *lime.ServerConfig
	viaBuilder := false
	if cfg.AuthSource == "tape" {
		scfg = lime.NewServerConfig()
		scfg.Authenticate = tapeAuth
	} else {
		b := lime.NewServerBuilder()
		var enable map[string]func()
		if cfg.AuthSource == "builder" {
			wrap := func(kind string, ok bool, id lime.Identity, secret string) (*lime.AuthenticationResult, error) {
				enc, comp := sample()
				outcome := "unknown"
				if ok {
					outcome = "member"
				}
				record(Ev{T: "auth", Identity: id.String(), AuthType: kind, AuthJSON: secret, Enc: enc, Comp: comp, Outcome: outcome})
				if ok {
					return lime.MemberAuthenticationResult(), nil
				}
				return lime.UnknownAuthenticationResult(), nil
			}
			enable = map[string]func(){
				"plain": func() {
					b.EnablePlainAuthentication(func(ctx context.Context, id lime.Identity, pwd string) (*lime.AuthenticationResult, error) {
						return wrap("builder-plain", pwd == GoodPassword, id, pwd)
					})
				},
				"key": func() {
					b.EnableKeyAuthentication(func(ctx context.Context, id lime.Identity, key string) (*lime.AuthenticationResult, error) {
						return wrap("builder-key", key == GoodKey, id, key)
					})
				},
				"external": func() {
					b.EnableExternalAuthentication(func(ctx context.Context, id lime.Identity, token, issuer string) (*lime.AuthenticationResult, error) {
						return wrap("builder-external", token == GoodToken, id, token)
					})
				},
				"guest":     func() { b.EnableGuestAuthentication() },
				"transport": func() { b.EnableTransportAuthentication() },
			}
		}
		// In "builder" mode the options go through the builder's own methods (in "builder-noauth" the schemes are
		// offered without their authenticators, which only direct configuration can express).
		if cfg.AuthSource == "builder" {
			b.CompressionOptions(toComp(cfg.Comp)...)
			b.EncryptionOptions(toEnc(cfg.Enc)...)
			// the builder starts from the default scheme list (transport) and appends what is enabled, in order
			expected := []string{"transport"}
			for _, sch := range cfg.Schemes {
				if f := enable[sch]; f != nil {
					f()
				}
				if !inList(expected, sch) {
					expected = append(expected, sch)
				}
			}
			cfg.Schemes = expected
			e.Cfg = cfg
		}
		tmp := b.ListenInProcess(rig.NewInProcAddr()).Build() // never started; only its configuration is used
		scfg = tmp.VerifConfig()
		viaBuilder = cfg.AuthSource == "builder"
		// A second, unrelated server built afterwards in the same process (never started) must not change the first
		// one's configuration.
		_ = lime.NewServerBuilder().
			CompressionOptions(lime.SessionCompressionNone).
			EncryptionOptions(lime.SessionEncryptionNone).
			EnableExternalAuthentication(func(context.Context, lime.Identity, string, string) (*lime.AuthenticationResult, error) {
				return lime.UnknownAuthenticationResult(), nil
			}).
			EnableGuestAuthentication().
			ListenInProcess(rig.NewInProcAddr()).Build()
		inner := scfg.Authenticate
		scfg.Authenticate = func(ctx context.Context, id lime.Identity, a lime.Authentication) (*lime.AuthenticationResult, error) {
			res, err := inner(ctx, id, a)
			at, aj := describeAuth(a)
			enc, comp := sample()
			outcome := "error"
			if err == nil && res != nil {
				outcome = "role:" + string(res.Role)
			}
			record(Ev{T: "auth-builder", Identity: id.String(), AuthType: at, AuthJSON: aj, Enc: enc, Comp: comp, Outcome: outcome})
			return res, err
		}
	}
	scfg.Node = node
	if !viaBuilder {
		scfg.CompOpts = toComp(cfg.Comp)
		scfg.EncryptOpts = toEnc(cfg.Enc)
		scfg.SchemeOpts = toSchemes(cfg.Schemes)
	}
	scfg.Register = register
	scfg.ChannelBufferSize = 4
	scfg.Established = func(id string, sc *lime.ServerChannel) {
		e.mu.Lock()
		e.estab[id]++
		e.mu.Unlock()
		enc, comp := sample()
		record(Ev{T: "established", SessionID: id, Enc: enc, Comp: comp, Node: sc.RemoteNode().String(), State: string(sc.State())})
	}
	scfg.Finished = func(id string) {
		e.mu.Lock()
		e.finished[id]++
		e.mu.Unlock()
		record(Ev{T: "finished", SessionID: id})
	}
	e.srv = lime.NewServer(scfg, mux, e.lst.Bound())
	stateSinks.Store(e, true)
	go func() { e.serveErr <- e.srv.ListenAndServe() }()
	return e, nil
}

func (e *Explorer) Close() {
	stateSinks.Delete(e)
	_ = e.srv.Close()
	select {
	case <-e.serveErr:
	case <-time.After(5 * time.Second):
	}
}

// Counts returns callback counts for a session id.
func (e *Explorer) Counts(id string) (estab, finished int) {
	e.mu.Lock()
	defer e.mu.Unlock()
	return e.estab[id], e.finished[id]
}

// TotalEstablished returns the number of distinct session ids for which Established fired.
func (e *Explorer) TotalEstablished() int {
	e.mu.Lock()
	defer e.mu.Unlock()
	return len(e.estab)
}

// ---- symbols ----------------------------------------------------------------------------------------

const BadID = "00000000-bad0-4bad-8bad-000000000bad"

// BuildSymbol returns the bytes for a script symbol. ok=false for action symbols.
func BuildSymbol(sym, id string) (b []byte, action string) {
	j := func(m map[string]interface{}) []byte {
		b, _ := json.Marshal(m)
		return append(b, '\n')
	}
	idv := func(v string, m map[string]interface{}) {
		switch v {
		case "id":
			m["id"] = id
		case "bad":
			m["id"] = BadID
		}
	}
	parts := strings.Split(sym, ":")
	switch parts[0] {
	case "new":
		return j(map[string]interface{}{"state": "new"}), ""
	case "new+id":
		return j(map[string]interface{}{"state": "new", "id": BadID}), ""
	case "neg": // neg:<idv>:<comp>:<enc>
		m := map[string]interface{}{"state": "negotiating"}
		idv(parts[1], m)
		if parts[2] != "-" {
			m["compression"] = parts[2]
		}
		if parts[3] != "-" {
			m["encryption"] = parts[3]
		}
		return j(m), ""
	case "auth", "authas": // auth:<idv>:<cred> | authas:<state>:<cred> (credentials under another state, right id)
		m := map[string]interface{}{"state": "authenticating", "from": "alice@verif.local/home"}
		if parts[0] == "authas" {
			m["state"] = parts[1]
			idv("id", m)
		} else {
			idv(parts[1], m)
		}
		switch parts[2] {
		case "guest-uuid":
			m["from"] = GuestUUID + "@verif.local/home"
			m["scheme"] = "guest"
			m["authentication"] = map[string]interface{}{}
		case "guest-nonuuid":
			m["scheme"] = "guest"
			m["authentication"] = map[string]interface{}{}
		case "plain-good":
			m["scheme"] = "plain"
			m["authentication"] = map[string]interface{}{"password": base64.StdEncoding.EncodeToString([]byte(GoodPassword))}
		case "plain-bad":
			m["scheme"] = "plain"
			m["authentication"] = map[string]interface{}{"password": base64.StdEncoding.EncodeToString([]byte("wrong"))}
		case "plain-empty":
			m["scheme"] = "plain"
			m["authentication"] = map[string]interface{}{}
		case "plain-notb64":
			m["scheme"] = "plain"
			m["authentication"] = map[string]interface{}{"password": "%%%not-base64%%%"}
		case "key":
			m["scheme"] = "key"
			m["authentication"] = map[string]interface{}{"key": base64.StdEncoding.EncodeToString([]byte(GoodKey))}
		case "transport":
			m["scheme"] = "transport"
			m["authentication"] = map[string]interface{}{}
		case "external":
			m["scheme"] = "external"
			m["authentication"] = map[string]interface{}{"token": GoodToken, "issuer": "iss"}
		case "noscheme":
			// neither scheme nor authentication
		case "scheme-only":
			m["scheme"] = "guest"
		case "unknown-scheme":
			m["scheme"] = "zzz"
			m["authentication"] = map[string]interface{}{}
		case "nofrom":
			delete(m, "from")
			m["scheme"] = "guest"
			m["authentication"] = map[string]interface{}{}
		}
		return j(m), ""
	case "state": // state:<s>
		return j(map[string]interface{}{"state": parts[1], "id": id}), ""
	case "msg":
		return j(map[string]interface{}{"id": "m1", "type": "text/plain", "content": "hello", "to": ServerNodeStr}), ""
	case "not":
		return j(map[string]interface{}{"id": "m1", "event": "received"}), ""
	case "req":
		return j(map[string]interface{}{"id": "c1", "method": "get", "uri": "/ping"}), ""
	case "resp":
		return j(map[string]interface{}{"id": "c1", "method": "get", "status": "success"}), ""
	case "garbage":
		return []byte("{{{\n"), ""
	case "emptyobj":
		return []byte("{}\n"), ""
	case "array":
		return []byte("[]\n"), ""
	case "string":
		return []byte("\"x\"\n"), ""
	case "trunc":
		return []byte(`{"state":"new","id":"`), "halfclose-after"
	case "disconnect", "halfclose", "pipeline":
		return nil, parts[0]
	}
	return nil, "unknown"
}

// Alphabet is the client alphabet Σc.
func Alphabet() []string {
	return []string{
		"new", "new+id",
		"neg:id:none:none", "neg:id:none:tls", "neg:id:gzip:none", "neg:id:-:tls", "neg:id:none:-", "neg:id:zzz:none", "neg:id:none:zzz", "neg:bad:none:none", "neg:none:none:tls",
		"auth:id:guest-uuid", "auth:id:guest-nonuuid", "auth:id:plain-good", "auth:id:plain-bad", "auth:id:plain-notb64", "auth:id:plain-empty", "auth:id:key", "auth:id:transport", "auth:id:external",
		"auth:id:noscheme", "auth:id:scheme-only", "auth:id:unknown-scheme", "auth:id:nofrom", "auth:bad:guest-uuid", "auth:none:guest-uuid", "auth:bad:plain-good",
		"authas:negotiating:plain-good", "authas:established:guest-uuid", "authas:finishing:key",
		"state:established", "state:finishing", "state:finished", "state:failed",
		"msg", "not", "req", "resp",
		"garbage", "emptyobj", "array", "string", "trunc",
		"disconnect", "halfclose", "pipeline",
	}
}

// ---- one run ----------------------------------------------------------------------------------------

// runMu serialises runs process-wide: callbacks and the state hook are attributed to the run in progress.
var runMu sync.Mutex

// Run executes one script and returns its trace.
func (e *Explorer) Run(script []string) *Trace {
	runMu.Lock()
	defer runMu.Unlock()
	tr := &Trace{Config: e.Cfg, Script: append([]string{}, script...), ClosedAfter: -1, TLSFromC2S: -1, TLSFromS2C: -1, ServerNode: ServerNodeStr}
	ca, cb := faultconn.Pair(faultconn.Options{})
	tcfg := &lime.TCPConfig{}
	if e.Cfg.TLSCapable {
		tcfg.TLSConfig = rig.ServerTLSVia(e.Cfg.TLSVia)
	}
	t := lime.VerifNewTCPTransport(cb, true, tcfg)
	rs := &runState{trace: tr, transport: t, cut: ca.Cut}
	e.mu.Lock()
	e.cur = rs
	e.mu.Unlock()
	defer func() {
		rs.mu.Lock()
		rs.closed = true
		rs.mu.Unlock()
		e.mu.Lock()
		if e.cur == rs {
			e.cur = nil
		}
		e.mu.Unlock()
	}()
	if !e.lst.Push(t) {
		tr.Stuck = true
		tr.add(Ev{T: "stuck", Detail: "server did not accept the connection"})
		return tr
	}
	var conn net.Conn = ca
	var tlsConn *tls.Conn
	var pending []byte // undecoded bytes read so far
	addEv := func(ev Ev) {
		rs.mu.Lock()
		ev.Step = rs.step
		tr.add(ev)
		rs.mu.Unlock()
	}
	// Once the channel is established its receiver goroutine blocks reading while the handshake goroutine is still
	// about to write the established envelope: quiescence then also requires that envelope to have arrived.
	pendingEstablished := func() bool {
		rs.mu.Lock()
		defer rs.mu.Unlock()
		stateEst, recvEst := false, false
		for _, e := range tr.Events {
			if e.T == "state" && e.To == "established" && e.SessionID == tr.SessionID && tr.SessionID != "" {
				stateEst = true
			}
			if e.T == "recv" && e.Env != nil && e.Env["state"] == "established" {
				recvEst = true
			}
		}
		return stateEst && !recvEst
	}
	pendingOrSeenEstablished := func() bool {
		rs.mu.Lock()
		defer rs.mu.Unlock()
		for _, e := range tr.Events {
			if (e.T == "state" && e.To == "established" && e.SessionID == tr.SessionID && tr.SessionID != "") || (e.T == "recv" && e.Env != nil && e.Env["state"] == "established") {
				return true
			}
		}
		return false
	}
	closeNotify := false
	silentPeer := scriptHash(script)%8 == 0
	// react reads what the server sends until it is quiescent (blocked reading), has closed, or is stuck.
	react := func() (closed bool) {
		deadline := time.Now().Add(4 * time.Second)
		buf := make([]byte, 64*1024)
		spins := 0
		for {
			progressed := false
			// The TLS layer reads ahead: a record (the close_notify, typically) may sit inside tlsConn with nothing
			// left in the connection's buffer, so over TLS every turn polls tlsConn without blocking.
			if ca.Buffered() > 0 || tlsConn != nil {
				var n int
				var err error
				if tlsConn != nil {
					if ca.Buffered() > 0 {
						_ = tlsConn.SetReadDeadline(time.Now().Add(50 * time.Millisecond))
					} else {
						_ = tlsConn.SetReadDeadline(time.Now().Add(-time.Second))
					}
					n, err = tlsConn.Read(buf)
				} else {
					_ = ca.SetReadDeadline(time.Now().Add(50 * time.Millisecond))
					n, err = ca.Read(buf)
				}
				if n > 0 {
					progressed = true
					pending = append(pending, buf[:n]...)
					for {
						i := strings.IndexByte(string(pending), '\n')
						if i < 0 {
							break
						}
						line := pending[:i]
						pending = pending[i+1:]
						var m map[string]interface{}
						if json.Unmarshal(line, &m) != nil {
							addEv(Ev{T: "recv", Raw: string(line), OverTLS: tlsConn != nil, Detail: "undecodable"})
							continue
						}
						addEv(Ev{T: "recv", Env: m, OverTLS: tlsConn != nil})
						if tr.SessionID == "" {
							if id, ok := m["id"].(string); ok {
								tr.SessionID = id
							}
						}
					}
				}
				if err != nil {
					var ne net.Error
					if !(errors.As(err, &ne) && ne.Timeout()) {
						// TLS alert / EOF etc.
						if ca.PeerClosed() && ca.Buffered() == 0 {
							return true
						}
						if tlsConn != nil && errors.Is(err, io.EOF) && !closeNotify {
							// close_notify: the server ended its sending direction and is closing (it may linger
							// a bounded while for the peer's close). Most runs answer like a real peer - by
							// closing too; a script-determined sample stays silent, so the server has to close
							// on its own.
							closeNotify = true
							addEv(Ev{T: "close-notify"})
							if !silentPeer {
								_ = ca.CloseWrite()
							}
						}
					}
				}
			}
			if progressed {
				continue
			}
			if ca.PeerClosed() && ca.Buffered() == 0 {
				return true
			}
			if cb.ReadBlocked() && ca.Buffered() == 0 && !closeNotify && !pendingEstablished() {
				// a closing server half-closes before it blocks reading (it lingers for the peer's close)
				if ca.PeerClosed() {
					continue
				}
				return false
			}
			if time.Now().After(deadline) {
				tr.Stuck = true
				addEv(Ev{T: "stuck", Detail: "server neither closed the connection nor waits for input"})
				return false
			}
			spins++
			if spins < 2000 {
				// the server reacts within microseconds: yield first, sleep later (a sleep costs ~1 ms here)
				runtime.Gosched()
			} else {
				time.Sleep(20 * time.Microsecond)
			}
		}
	}

	i := 0
	for i < len(script) {
		sym := script[i]
		rs.mu.Lock()
		rs.step = i
		rs.mu.Unlock()
		b, action := BuildSymbol(sym, tr.SessionID)
		consumed := 1
		if action == "pipeline" {
			// the next two symbols go out in one write
			var all []byte
			for k := 1; k <= 2 && i+k < len(script); k++ {
				bb, act := BuildSymbol(script[i+k], tr.SessionID)
				if act == "" || act == "halfclose-after" {
					all = append(all, bb...)
				}
				consumed++
			}
			b, action = all, ""
			sym = strings.Join(script[i:i+consumed], " ")
		}
		switch action {
		case "disconnect":
			addEv(Ev{T: "disconnect", Sym: sym})
			_ = conn.Close()
			tr.StepsRun = i + 1
			e.settle(tr, ca, cb, true)
			tr.WireC2S, tr.WireS2C = ca.WireOut(), ca.WireIn()
			return tr
		case "halfclose":
			addEv(Ev{T: "send", Sym: sym})
			_ = ca.CloseWrite()
			if pendingOrSeenEstablished() {
				// EOF inside an established session is not part of the handshake: end the run here
				tr.StepsRun = i + 1
				_ = conn.Close()
				e.settle(tr, ca, cb, true)
				tr.WireC2S, tr.WireS2C = ca.WireOut(), ca.WireIn()
				return tr
			}
		case "unknown":
			addEv(Ev{T: "send", Sym: sym, Detail: "unknown symbol"})
		default:
			addEv(Ev{T: "send", Sym: sym, Raw: string(b), OverTLS: tlsConn != nil})
			_ = conn.SetWriteDeadline(time.Now().Add(3 * time.Second))
			_, _ = conn.Write(b)
			if action == "halfclose-after" {
				_ = ca.CloseWrite()
			}
		}
		closed := react()
		tr.StepsRun = i + consumed
		if closed {
			tr.ClosedAfter = i + consumed - 1
			addEv(Ev{T: "closed"})
			break
		}
		if tr.Stuck {
			break
		}
		// TLS upgrade after a tls confirmation
		if tlsConn == nil && !e.Cfg.ClientSkipsTLS {
			recv := tr.Recv()
			if len(recv) > 0 {
				last := recv[len(recv)-1].Env
				if last != nil && last["state"] == "negotiating" && last["encryption"] == "tls" && last["encryptionOptions"] == nil {
					if tr.TLSFromS2C < 0 {
						tr.TLSFromS2C = len(ca.WireIn())
						tr.TLSFromC2S = len(ca.WireOut())
						tc := tls.Client(ca, rig.ClientTLS())
						_ = tc.SetDeadline(time.Now().Add(5 * time.Second))
						if err := tc.Handshake(); err != nil {
							addEv(Ev{T: "tls-fail", Detail: err.Error()})
						} else {
							_ = tc.SetDeadline(time.Time{})
							tlsConn = tc
							conn = tc
							addEv(Ev{T: "tls-up"})
							// the server continues with the authentication request
							if react() {
								tr.ClosedAfter = i + consumed - 1
								addEv(Ev{T: "closed"})
								i += consumed
								break
							}
						}
					}
				}
			}
		}
		i += consumed
	}
	if tr.ClosedAfter < 0 && !tr.Stuck {
		tr.OpenAtEnd = true
		addEv(Ev{T: "open"})
	}
	// the run always ends with the client closing its end
	_ = conn.Close()
	if tlsConn != nil {
		_ = ca.Close()
	}
	e.settle(tr, ca, cb, false)
	tr.WireC2S, tr.WireS2C = ca.WireOut(), ca.WireIn()
	return tr
}

func scriptHash(script []string) uint32 {
	h := fnv.New32a()
	for _, x := range script {
		_, _ = h.Write([]byte(x))
		_, _ = h.Write([]byte{0})
	}
	return h.Sum32()
}

// settle waits (bounded) until the server side of the run has finished: connection closed by the server and, for an
// established session, the Finished callback fired.
func (e *Explorer) settle(tr *Trace, ca, cb *faultconn.Conn, afterDisconnect bool) {
	deadline := time.Now().Add(3 * time.Second)
	spins := 0
	for {
		closed, _ := cb.Closed()
		est, fin := 0, 0
		if tr.SessionID != "" {
			est, fin = e.Counts(tr.SessionID)
		}
		if est > 0 {
			// an established session is over once its Finished callback has fired
			if fin >= est {
				return
			}
		} else if closed {
			return
		}
		if time.Now().After(deadline) {
			tr.SettledLate = true
			rsClosed := "server end not closed"
			if closed {
				rsClosed = "server end closed"
			}
			tr.add(Ev{T: "unsettled", Detail: fmt.Sprintf("%s; established=%d finished=%d", rsClosed, est, fin)})
			return
		}
		if spins++; spins < 3000 {
			runtime.Gosched()
		} else {
			time.Sleep(50 * time.Microsecond)
		}
	}
}
