package hs

import (
	"context"
	"crypto/tls"
	"encoding/json"
	"errors"
	"fmt"
	"net"
	"runtime"
	"strings"
	"time"

	lime "github.com/takenet/lime-go"

	"verif/harness/internal/faultconn"
	"verif/harness/internal/rig"
)

// ClientConfig is one client configuration for the mirrored explorer.
type ClientConfig struct {
	Name     string `json:"name"`
	Selector string `json:"selector"` // none | tls | first
	Auth     string `json:"auth"`     // guest | plain | roundtrip-aware
	HighLevel bool  `json:"high_level,omitempty"` // drive lime.Client (buildChannel) instead of a bare ClientChannel
}

// CEv is one event of a client-explorer trace.
type CEv struct {
	T      string                 `json:"t"` // s-send c-recv tls-up tls-fail returned panic closed stuck
	Sym    string                 `json:"sym,omitempty"`
	Env    map[string]interface{} `json:"env,omitempty"`
	Detail string                 `json:"detail,omitempty"`
}

type CTrace struct {
	Config  ClientConfig `json:"config"`
	Script  []string     `json:"script"`
	Events  []CEv        `json:"events"`
	Returned bool        `json:"returned"`
	Err      string      `json:"err,omitempty"`
	Panic    string      `json:"panic,omitempty"`
	ResultState string   `json:"result_state,omitempty"`
	// observations after the run
	Established bool   `json:"established"`
	State       string `json:"state"`
	ID          string `json:"id"`
	Local       string `json:"local"`
	Remote      string `json:"remote"`
	ClientClosed bool  `json:"client_closed"` // the scripted server saw EOF from the client
	Waiting     bool   `json:"waiting"`       // the client still waits for input after the script ended
	Stuck       bool   `json:"stuck"`
	StuckAfterDisconnect bool `json:"stuck_after_disconnect"`
	Published   bool   `json:"published,omitempty"` // high-level: Establish returned nil
}

const SID = "5d1f0c6e-aaaa-4bbb-8ccc-111111111111"
const SID2 = "5d1f0c6e-bbbb-4ccc-8ddd-222222222222"
const ClientSecret = "cl1ent-s3cret"

// ServerAlphabet is Σs.
func ServerAlphabet() []string {
	return []string{
		"negopts", "negopts-empty", "negopts-unknown", "negopts:id2",
		"negconf:none", "negconf:tls", "negconf:absent", "negconf:zzz",
		"authreq", "authreq-empty", "authreq:id2", "authreq:noid", "roundtrip",
		"established", "established:id2", "established:noid", "established:nonodes",
		"finishing", "finished", "failed", "failed-noreason", "new",
		"msg", "not", "req", "resp", "garbage", "emptyobj", "disconnect",
	}
}

func buildServerSymbol(sym string) []byte {
	j := func(m map[string]interface{}) []byte {
		b, _ := json.Marshal(m)
		return append(b, '\n')
	}
	parts := strings.Split(sym, ":")
	m := map[string]interface{}{"id": SID, "from": ServerNodeStr}
	if len(parts) > 1 {
		switch parts[1] {
		case "id2":
			m["id"] = SID2
		case "noid":
			delete(m, "id")
		}
	}
	switch parts[0] {
	case "negopts":
		m["state"], m["encryptionOptions"], m["compressionOptions"] = "negotiating", []string{"none", "tls"}, []string{"none"}
	case "negopts-empty":
		m["state"] = "negotiating"
		m["encryptionOptions"], m["compressionOptions"] = []string{}, []string{}
	case "negopts-unknown":
		m["state"], m["encryptionOptions"], m["compressionOptions"] = "negotiating", []string{"zzz"}, []string{"qqq"}
	case "negconf":
		m["state"] = "negotiating"
		if parts[1] != "absent" {
			m["encryption"], m["compression"] = parts[1], "none"
		}
		m["id"] = SID
	case "authreq":
		m["state"], m["schemeOptions"] = "authenticating", []string{"guest", "plain"}
	case "authreq-empty":
		m["state"] = "authenticating"
	case "roundtrip":
		m["state"], m["scheme"], m["authentication"] = "authenticating", "plain", map[string]interface{}{"password": "cm91bmQ="}
	case "established":
		m["state"], m["to"] = "established", "client@verif.local/assigned"
		if len(parts) > 1 && parts[1] == "nonodes" {
			delete(m, "to")
			delete(m, "from")
		}
	case "finishing":
		m["state"] = "finishing"
	case "finished":
		m["state"] = "finished"
	case "failed":
		m["state"], m["reason"] = "failed", map[string]interface{}{"code": 11, "description": "refused"}
	case "failed-noreason":
		m["state"] = "failed"
	case "new":
		m["state"] = "new"
	case "msg":
		return j(map[string]interface{}{"id": "m1", "type": "text/plain", "content": "hi"})
	case "not":
		return j(map[string]interface{}{"id": "m1", "event": "received"})
	case "req":
		return j(map[string]interface{}{"id": "c1", "method": "get", "uri": "/ping"})
	case "resp":
		return j(map[string]interface{}{"id": "c1", "method": "get", "status": "success"})
	case "garbage":
		return []byte("}{]\n")
	case "emptyobj":
		return []byte("{}\n")
	}
	return j(m)
}

func selectorFor(name string) lime.EncryptionSelector {
	switch name {
	case "tls":
		return lime.TLSEncryptionSelector
	case "first":
		return func(o []lime.SessionEncryption) lime.SessionEncryption {
			if len(o) == 0 {
				return ""
			}
			return o[0]
		}
	}
	return lime.NoneEncryptionSelector
}

func authenticatorFor(name string) lime.Authenticator {
	switch name {
	case "plain":
		return func(s []lime.AuthenticationScheme, rt lime.Authentication) lime.Authentication {
			a := &lime.PlainAuthentication{}
			a.SetPasswordAsBase64(ClientSecret)
			return a
		}
	case "roundtrip-aware":
		return func(s []lime.AuthenticationScheme, rt lime.Authentication) lime.Authentication {
			if rt != nil {
				a := &lime.KeyAuthentication{}
				a.SetKeyAsBase64("second-factor")
				return a
			}
			return &lime.GuestAuthentication{}
		}
	}
	return lime.GuestAuthenticator
}

// RunClient executes one server script against the real client code.
func RunClient(cfg ClientConfig, script []string) *CTrace {
	tr := &CTrace{Config: cfg, Script: append([]string{}, script...)}
	ca, cb := faultconn.Pair(faultconn.Options{}) // ca: client end, cb: scripted server end
	ct := lime.VerifNewTCPTransport(ca, false, &lime.TCPConfig{TLSConfig: rig.ClientTLS()})
	var cc *lime.ClientChannel
	var client *lime.Client
	type res struct {
		ses   *lime.Session
		err   error
		panic interface{}
	}
	done := make(chan res, 1)
	compSel := func(o []lime.SessionCompression) lime.SessionCompression { return lime.SessionCompressionNone }
	if cfg.HighLevel {
		ccfg := lime.NewClientConfig()
		ccfg.Node = lime.Node{Identity: lime.Identity{Name: "client", Domain: "verif.local"}, Instance: "home"}
		ccfg.ChannelBufferSize = 4
		used := false
		estCtx, estCancel := context.WithTimeout(context.Background(), 20*time.Second)
		ccfg.NewTransport = func(ctx context.Context) (lime.Transport, error) {
			if used {
				// one connection per run: a second attempt ends the Establish call
				estCancel()
				return nil, errors.New("no more connections in this run")
			}
			used = true
			return ct, nil
		}
		ccfg.CompSelector = compSel
		ccfg.EncryptSelector = selectorFor(cfg.Selector)
		ccfg.Authenticator = authenticatorFor(cfg.Auth)
		client = lime.NewClient(ccfg, &lime.EnvelopeMux{})
		go func() {
			var r res
			defer func() {
				if p := recover(); p != nil {
					r.panic = p
				}
				done <- r
			}()
			defer estCancel()
			r.err = client.Establish(estCtx)
		}()
	} else {
		cc = lime.NewClientChannel(ct, 4)
		go func() {
			var r res
			defer func() {
				if p := recover(); p != nil {
					r.panic = p
				}
				done <- r
			}()
			ctx, cancel := context.WithTimeout(context.Background(), 20*time.Second)
			defer cancel()
			r.ses, r.err = cc.EstablishSession(ctx, compSel, selectorFor(cfg.Selector), lime.Identity{Name: "client", Domain: "verif.local"}, authenticatorFor(cfg.Auth), "home")
		}()
	}

	var conn net.Conn = cb
	var tlsConn *tls.Conn
	tlsBroken := false
	justEstablished := false
	var pending []byte
	returned := false
	var result res
	// pump reads what the client sent; returns when the client waits for input, has returned, or closed
	pump := func() {
		deadline := time.Now().Add(4 * time.Second)
		buf := make([]byte, 64*1024)
		spins := 0
		for {
			progressed := false
			if tlsConn == nil && cb.Buffered() > 0 {
				// (one snapshot decides: bytes arriving between two looks must not be read as cleartext)
				pk := cb.Peek(3)
				if len(pk) > 0 && pk[0] == 0x16 {
					if len(pk) < 3 {
						runtime.Gosched()
						continue
					}
					if pk[1] == 0x03 {
						// the client started a TLS handshake (it applies whatever non-none encryption was confirmed): serve it
						tc := tls.Server(cb, rig.ServerTLS())
						_ = tc.SetDeadline(time.Now().Add(3 * time.Second))
						if err := tc.Handshake(); err != nil {
							tr.Events = append(tr.Events, CEv{T: "tls-fail", Detail: err.Error()})
							tlsBroken = true
						} else {
							_ = tc.SetDeadline(time.Time{})
							tlsConn, conn = tc, tc
							tr.Events = append(tr.Events, CEv{T: "tls-up"})
						}
						continue
					}
				}
			}
			if tlsBroken {
				// nothing sensible can follow a failed TLS handshake: the server goes away
				return
			}
			if cb.Buffered() > 0 {
				if tlsConn == nil {
					if pk := cb.Peek(1); len(pk) == 1 && pk[0] == 0x16 {
						continue // a TLS record: handled above
					}
				}
				var n int
				if tlsConn != nil {
					_ = tlsConn.SetReadDeadline(time.Now().Add(50 * time.Millisecond))
					n, _ = tlsConn.Read(buf)
				} else {
					_ = cb.SetReadDeadline(time.Now().Add(50 * time.Millisecond))
					n, _ = cb.Read(buf)
				}
				if n > 0 {
					progressed = true
					pending = append(pending, buf[:n]...)
					for {
						i := strings.IndexByte(string(pending), '\n')
						if i < 0 {
							break
						}
						line := pending[:i]
						pending = pending[i+1:]
						var m map[string]interface{}
						if json.Unmarshal(line, &m) == nil {
							tr.Events = append(tr.Events, CEv{T: "c-recv", Env: m})
						} else {
							tr.Events = append(tr.Events, CEv{T: "c-recv", Detail: "undecodable: " + string(line)})
						}
					}
				}
			}
			if progressed {
				continue
			}
			if !returned {
				select {
				case result = <-done:
					returned = true
					continue
				default:
				}
			}
			if cb.PeerClosed() && cb.Buffered() == 0 {
				tr.ClientClosed = true
			}
			if returned && cb.Buffered() == 0 {
				return
			}
			if ca.ReadBlocked() && cb.Buffered() == 0 {
				if justEstablished && !returned {
					// the freshly started receiver already blocks reading while EstablishSession is about to return
					justEstablished = false
					for t0 := time.Now(); time.Since(t0) < 3*time.Millisecond; {
						select {
						case result = <-done:
							returned = true
						default:
							runtime.Gosched()
							continue
						}
						break
					}
					continue
				}
				return
			}
			if tr.ClientClosed && !returned {
				// closed its connection but has not returned yet: give it time
			}
			if time.Now().After(deadline) {
				tr.Stuck = true
				tr.Events = append(tr.Events, CEv{T: "stuck"})
				return
			}
			spins++
			if spins < 2000 {
				runtime.Gosched()
			} else {
				time.Sleep(20 * time.Microsecond)
			}
		}
	}
	pump() // the client's "new"
	disconnected := false
	for _, sym := range script {
		if returned || tr.Stuck || tlsBroken {
			break
		}
		if sym == "disconnect" {
			tr.Events = append(tr.Events, CEv{T: "s-send", Sym: sym})
			_ = conn.Close()
			if tlsConn != nil {
				_ = cb.Close()
			}
			disconnected = true
			break
		}
		b := buildServerSymbol(sym)
		var env map[string]interface{}
		_ = json.Unmarshal(b, &env)
		tr.Events = append(tr.Events, CEv{T: "s-send", Sym: sym, Env: env})
		_ = conn.SetWriteDeadline(time.Now().Add(3 * time.Second))
		_, _ = conn.Write(b)
		justEstablished = env != nil && env["state"] == "established"
		pump()
	}
	if !returned && !tr.Stuck && !disconnected {
		tr.Waiting = true
		// end of script: the server goes away; establishment must then return
		_ = conn.Close()
		if tlsConn != nil {
			_ = cb.Close()
		}
		disconnected = true
	}
	if !returned {
		select {
		case result = <-done:
			returned = true
		case <-time.After(10 * time.Second):
			tr.StuckAfterDisconnect = true
		}
	}
	tr.Returned = returned
	if returned {
		if result.panic != nil {
			tr.Panic = fmt.Sprint(result.panic)
		}
		if result.err != nil {
			tr.Err = result.err.Error()
		}
		if result.ses != nil {
			tr.ResultState = string(result.ses.State)
		}
	}
	// let the client finish closing, then observe
	// (timer granularity on this kind of VM is ~1 ms: spin instead of sleeping)
	for t0 := time.Now(); !cb.PeerClosed() && time.Since(t0) < 400*time.Microsecond; {
		runtime.Gosched()
	}
	tr.ClientClosed = cb.PeerClosed()
	if !cfg.HighLevel && returned && result.err != nil {
		// a receiver that has just been handed a refused envelope fails the channel a moment later
		for t0 := time.Now(); cc.State() == lime.SessionStateEstablished && time.Since(t0) < 20*time.Millisecond; {
			runtime.Gosched()
		}
	}
	if cfg.HighLevel {
		tr.Published = returned && result.err == nil && result.panic == nil
		if ch := client.VerifChannel(); ch != nil {
			tr.Established, tr.State, tr.ID, tr.Local, tr.Remote = ch.Established(), string(ch.State()), ch.ID(), ch.LocalNode().String(), ch.RemoteNode().String()
		}
	} else {
		tr.Established, tr.State, tr.ID, tr.Local, tr.Remote = cc.Established(), string(cc.State()), cc.ID(), cc.LocalNode().String(), cc.RemoteNode().String()
	}
	// teardown: server side first so that a running receiver ends without waiting out its read poll
	if !disconnected {
		_ = conn.Close()
		if tlsConn != nil {
			_ = cb.Close()
		}
	}
	if cfg.HighLevel {
		cdone := make(chan struct{})
		go func() { _ = client.Close(); close(cdone) }()
		select {
		case <-cdone:
		case <-time.After(8 * time.Second):
		}
	} else {
		_ = cc.Close()
	}
	return tr
}

// ClassifyClient applies the C08 oracle.
func ClassifyClient(tr *CTrace) []Issue {
	var out []Issue
	add := func(key, format string, a ...interface{}) {
		for _, i := range out {
			if i.Key == key {
				return
			}
		}
		out = append(out, Issue{"C08", key, fmt.Sprintf(format, a...)})
	}
	if tr.Panic != "" {
		add("C08/panic/"+panicClass(tr.Panic), "establishment panicked: %s (script %v)", tr.Panic, tr.Script)
	}
	if tr.Stuck {
		add("C08/stuck", "the client neither returned, nor waits for input, nor closed within 4 s (script %v)", tr.Script)
	}
	if tr.StuckAfterDisconnect {
		add("C08/blocked-after-disconnect", "establishment still blocked 10 s after the server disconnected (script %v)", tr.Script)
	}
	// last server session envelope
	var lastSes map[string]interface{}
	var lastSent map[string]interface{}
	lastSym := ""
	firstClient := true
	for _, e := range tr.Events {
		switch e.T {
		case "s-send":
			lastSent = e.Env
			lastSym = e.Sym
			if e.Env != nil {
				if _, ok := e.Env["state"]; ok {
					lastSes = e.Env
				}
			}
		case "c-recv":
			if e.Env == nil {
				continue
			}
			if firstClient {
				firstClient = false
				if e.Env["state"] != "new" || e.Env["id"] != nil {
					add("C08/first-envelope", "the client's first envelope is %v", e.Env)
				}
				continue
			}
			// (c) echo the id of the server's latest session envelope
			wantID := interface{}(nil)
			if lastSes != nil {
				wantID = lastSes["id"]
			}
			gotID := e.Env["id"]
			if fmt.Sprint(orEmpty(gotID)) != fmt.Sprint(orEmpty(wantID)) {
				add("C08/id-echo", "client envelope %v carries id %v; the server's latest session envelope had id %v (script %v)", e.Env, gotID, wantID, tr.Script)
			}
			// (d) credentials only in answer to an authentication request
			if e.Env["authentication"] != nil || e.Env["scheme"] != nil {
				if lastSent == nil || lastSent["state"] != "authenticating" {
					add("C08/credentials-unrequested", "client sent credentials %v although the server's immediately preceding envelope was %s (%v)", e.Env, lastSym, lastSent)
				}
			}
		}
	}
	// (b) truthful establishment
	// What the client reports *now* (its live state, a published channel) is compared with the server's last word. What
	// EstablishSession *returned* was true or false at the moment it returned: the scripted server may already have
	// sent its next symbols when the return is noticed, so that claim only needs an established session among the
	// server's envelopes (the returned session then is that envelope: id and nodes are compared below).
	liveClaim := tr.Established || tr.State == "established" || tr.Published
	returnedClaim := tr.Returned && tr.Err == "" && tr.ResultState == "established"
	var estSes map[string]interface{}
	for _, e := range tr.Events {
		if e.T == "s-send" && e.Env != nil && e.Env["state"] == "established" && estSes == nil {
			estSes = e.Env
		}
	}
	if !liveClaim && returnedClaim && estSes != nil && (lastSes == nil || lastSes["state"] != "established") {
		// truthful when it returned; the session was then ended or broken by what the server sent next
		lastSes = estSes
	}
	claims := liveClaim || returnedClaim
	if claims {
		if lastSes == nil || lastSes["state"] != "established" {
			add("C08/established-untruthfully", "client reports an established channel (Established()=%v State=%s result=%s published=%v) but the server's last session envelope was %v (script %v)", tr.Established, tr.State, tr.ResultState, tr.Published, lastSes, tr.Script)
		} else {
			if tr.ID != fmt.Sprint(orEmpty(lastSes["id"])) {
				add("C08/adopted-id", "established envelope has id %v, the client adopted %q (script %v)", lastSes["id"], tr.ID, tr.Script)
			}
			if tr.Local != fmt.Sprint(orEmpty(lastSes["to"])) {
				add("C08/adopted-local-node", "established envelope has to=%v, the client's local node is %q", lastSes["to"], tr.Local)
			}
			if tr.Remote != fmt.Sprint(orEmpty(lastSes["from"])) {
				add("C08/adopted-remote-node", "established envelope has from=%v, the client's remote node is %q", lastSes["from"], tr.Remote)
			}
		}
	}
	if tr.Config.HighLevel && tr.Published && !(tr.Established || tr.State == "established") {
		add("C08/published-non-established", "Client.Establish returned nil but the published channel is in state %s (Established()=%v)", tr.State, tr.Established)
	}
	// (e) closes its connection when the server answers finished or failed
	estSent := false
	for i, e := range tr.Events {
		if e.T == "s-send" && e.Env != nil && e.Env["state"] == "established" {
			estSent = true
		}
		if e.T == "s-send" && e.Env != nil && (e.Env["state"] == "finished" || e.Env["state"] == "failed") {
			// only meaningful if the client consumed it as an answer: it was waiting in its handshake when it was sent.
			// The scripted server stops once the client's call has returned, but it may notice the return one symbol
			// late: a terminal session after the established one that the call returned is not part of the handshake
			// (ending an established session is C13's subject).
			if estSent && returnedClaim {
				break
			}
			if !tr.ClientClosed {
				add("C08/not-closed-after-terminal", "the server answered %v (event %d) but the client did not close its connection (script %v)", e.Env["state"], i, tr.Script)
			}
			break
		}
	}
	return out
}

func orEmpty(v interface{}) interface{} {
	if v == nil {
		return ""
	}
	return v
}

func panicClass(s string) string {
	s = strings.Map(func(r rune) rune {
		if r == ' ' || r == '/' {
			return '-'
		}
		if r >= '0' && r <= '9' {
			return '#'
		}
		return r
	}, s)
	if len(s) > 60 {
		s = s[:60]
	}
	return s
}
