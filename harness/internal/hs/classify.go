package hs

import (
	"bytes"
	"encoding/base64"
	"encoding/json"
	"fmt"
	"reflect"
	"strings"
)

// Issue is a refutation of one property found in a trace.
type Issue struct {
	Prop   string
	Key    string
	Detail string
}

// Verdict summarises the classification of a trace.
type Verdict struct {
	Issues       []Issue
	Labels       []string // per executed step
	ReachedNeg   bool
	ReachedAuth  bool
	Established  bool
	Conforming   bool // every step was conforming
	ViolationAt  int  // first step labelled as client violation (-1)
	OutsideAt    int
	Terminal     string // "", finished, failed
	TLSUpgraded  bool
	AuthRounds   int
	LabelSeq     string
	FailureClass string // for C14: class of the first non-conforming step
}

func (v *Verdict) issue(prop, key, format string, a ...interface{}) {
	for _, i := range v.Issues {
		if i.Prop == prop && i.Key == key {
			return
		}
	}
	v.Issues = append(v.Issues, Issue{prop, key, fmt.Sprintf(format, a...)})
}

func inList(l []string, s string) bool {
	for _, x := range l {
		if x == s {
			return true
		}
	}
	return false
}

func intersectOrdered(cfg []string, supported []string) []string {
	out := []string{}
	for _, c := range cfg {
		if inList(supported, c) {
			out = append(out, c)
		}
	}
	return out
}

func strList(v interface{}) ([]string, bool) {
	l, ok := v.([]interface{})
	if !ok {
		return nil, false
	}
	var out []string
	for _, e := range l {
		s, ok := e.(string)
		if !ok {
			return nil, false
		}
		out = append(out, s)
	}
	return out, true
}

func eqList(a, b []string) bool {
	if len(a) != len(b) {
		return false
	}
	for i := range a {
		if a[i] != b[i] {
			return false
		}
	}
	return true
}

// symbol facts
type symInfo struct {
	kind    string // session | data | undecodable | disconnect | halfclose
	state   string
	idv     string // id bad none
	comp    string
	enc     string
	cred    string
	scheme  string
	from    string // identity text the envelope carries as from (without instance)
	fromFull string
	decodable bool // whether lime can decode the session envelope at all
}

func parseSym(sym string) symInfo {
	p := strings.Split(sym, ":")
	si := symInfo{decodable: true}
	switch p[0] {
	case "new":
		si.kind, si.state, si.idv = "session", "new", "none"
	case "new+id":
		si.kind, si.state, si.idv = "session", "new", "bad"
	case "neg":
		si.kind, si.state, si.idv, si.comp, si.enc = "session", "negotiating", p[1], p[2], p[3]
	case "auth", "authas":
		si.kind, si.state, si.idv, si.cred = "session", "authenticating", p[1], p[2]
		if p[0] == "authas" {
			si.state, si.idv = p[1], "id"
		}
		si.from, si.fromFull = "alice@verif.local", "alice@verif.local/home"
		switch p[2] {
		case "guest-uuid":
			si.scheme = "guest"
			si.from, si.fromFull = GuestUUID+"@verif.local", GuestUUID+"@verif.local/home"
		case "guest-nonuuid", "scheme-only":
			si.scheme = "guest"
		case "plain-good", "plain-bad", "plain-notb64", "plain-empty":
			si.scheme = "plain"
		case "key":
			si.scheme = "key"
		case "transport":
			si.scheme = "transport"
		case "external":
			si.scheme = "external"
		case "noscheme":
			si.scheme = ""
		case "unknown-scheme":
			si.scheme = "zzz"
			si.decodable = false
		case "nofrom":
			si.scheme = "guest"
			si.from, si.fromFull = "", ""
		}
	case "state":
		si.kind, si.state, si.idv = "session", p[1], "id"
	case "msg", "not", "req", "resp":
		si.kind = "data"
	case "garbage", "emptyobj", "array", "string", "trunc":
		si.kind = "undecodable"
	case "disconnect":
		si.kind = "disconnect"
	case "halfclose":
		si.kind = "halfclose"
	default:
		si.kind = "undecodable"
	}
	return si
}

// credJSON is the authentication object a credential class carries on the wire.
func credJSON(cred string) (string, bool) {
	b64 := func(x string) string { return base64.StdEncoding.EncodeToString([]byte(x)) }
	switch cred {
	case "guest-uuid", "guest-nonuuid", "nofrom", "transport":
		return `{}`, true
	case "plain-good":
		return `{"password":"` + b64(GoodPassword) + `"}`, true
	case "plain-bad":
		return `{"password":"` + b64("wrong") + `"}`, true
	case "plain-empty":
		return `{"password":""}`, true
	case "key":
		return `{"key":"` + b64(GoodKey) + `"}`, true
	case "external":
		return `{"token":"` + GoodToken + `","issuer":"iss"}`, true
	}
	return "", false
}

func sameJSON(a, b string) bool {
	var x, y interface{}
	if json.Unmarshal([]byte(a), &x) != nil || json.Unmarshal([]byte(b), &y) != nil {
		return a == b
	}
	return reflect.DeepEqual(x, y)
}

// expected outcome of Authenticate for a credential class under the builder's authenticators.
func builderOutcome(cfg Config, cred string) string {
	have := cfg.AuthSource == "builder"
	switch cred {
	case "guest-uuid":
		return "member"
	case "guest-nonuuid", "nofrom":
		return "unknown"
	case "plain-good":
		if have {
			return "member"
		}
		return "error"
	case "plain-bad", "plain-empty":
		if have {
			return "unknown"
		}
		return "error"
	case "plain-notb64":
		return "error"
	case "key", "external":
		if have {
			return "member"
		}
		return "error"
	case "transport":
		return "error"
	case "scheme-only":
		return "error" // nil authentication: "unknown authentication scheme"
	}
	return "error"
}

func tapeOutcome(cfg Config, idx int) string {
	if len(cfg.Tape) == 0 {
		return "member"
	}
	if idx < len(cfg.Tape) {
		return cfg.Tape[idx]
	}
	return cfg.Tape[len(cfg.Tape)-1]
}

var stateOrder = map[string]int{"new": 0, "negotiating": 1, "authenticating": 2, "established": 3, "finishing": 4, "finished": 5, "failed": 6}

func looksLikeTLS(b []byte) bool {
	// every TLS record starts with a content type 20..23 and version 3.x
	i := 0
	if len(b) == 0 {
		return true
	}
	for i+5 <= len(b) {
		ct := b[i]
		if ct < 20 || ct > 23 || b[i+1] != 3 {
			return false
		}
		l := int(b[i+3])<<8 | int(b[i+4])
		i += 5 + l
	}
	return true
}

// Classify labels the trace and collects the issues per property.
func Classify(tr *Trace) *Verdict {
	v := &Verdict{ViolationAt: -1, OutsideAt: -1, Conforming: true}
	cfg := tr.Config
	offerC := intersectOrdered(cfg.Comp, []string{"none"})
	offerE := intersectOrdered(cfg.Enc, []string{"none", "tls"})
	mustNegotiate := len(offerC) > 1 || len(offerE) > 1
	c10pre := !inList(cfg.Enc, "none") && len(offerE) > 0 && cfg.TLSCapable

	// group events per step
	type stepRec struct {
		sym     string
		recv    []Ev
		auth    []Ev
		reg     []Ev
		estab   []Ev
		handler []Ev
		closed  bool
		open    bool
		tlsUp   bool
		tlsFail bool
	}
	steps := map[int]*stepRec{}
	get := func(i int) *stepRec {
		if steps[i] == nil {
			steps[i] = &stepRec{}
		}
		return steps[i]
	}
	var order []int
	for _, e := range tr.Events {
		s := get(e.Step)
		switch e.T {
		case "send", "disconnect":
			s.sym = e.Sym
			order = append(order, e.Step)
		case "recv":
			s.recv = append(s.recv, e)
		case "auth":
			if cfg.AuthSource == "tape" {
				s.auth = append(s.auth, e)
			}
		case "auth-builder":
			if cfg.AuthSource != "tape" {
				s.auth = append(s.auth, e)
			}
		case "register":
			s.reg = append(s.reg, e)
		case "established":
			s.estab = append(s.estab, e)
		case "handler":
			s.handler = append(s.handler, e)
		case "closed":
			s.closed = true
		case "open":
			s.open = true
		case "tls-up":
			s.tlsUp = true
			v.TLSUpgraded = true
		case "tls-fail":
			s.tlsFail = true
		}
	}

	// ---- generic clauses (C07) over all emissions ---------------------------------------------------
	all := tr.Recv()
	word := ""
	terminalSeen := false
	for k, e := range all {
		if e.Env == nil {
			v.issue("C07", "C07/undecodable-emission", "server emitted bytes that are not a JSON object: %q", e.Raw)
			continue
		}
		st, _ := e.Env["state"].(string)
		if st == "" {
			v.issue("C07", "C07/non-session-emission", "server emitted a non-session envelope during the exchange: %v", e.Env)
			continue
		}
		if terminalSeen {
			v.issue("C07", "C07/emission-after-terminal", "server emitted %v after a %s session (emission #%d)", e.Env, v.Terminal, k)
		}
		if id, _ := e.Env["id"].(string); id != tr.SessionID || id == "" {
			v.issue("C07", "C07/session-id", "emission #%d carries id %q, the connection's session id is %q", k, e.Env["id"], tr.SessionID)
		}
		if from, _ := e.Env["from"].(string); from != tr.ServerNode {
			v.issue("C07", "C07/from", "emission #%d (%s) carries from %q, expected the server node %q", k, st, e.Env["from"], tr.ServerNode)
		}
		switch st {
		case "negotiating":
			word += "N"
		case "authenticating":
			word += "A"
		case "established":
			word += "E"
			v.Established = true
		case "finished":
			word += "F"
			terminalSeen = true
			v.Terminal = "finished"
		case "failed":
			word += "X"
			terminalSeen = true
			v.Terminal = "failed"
			if e.Env["reason"] == nil {
				v.issue("C07", "C07/failed-without-reason", "failed session without a reason: %v", e.Env)
			}
		default:
			v.issue("C07", "C07/unexpected-state-emitted", "server emitted a session with state %q", st)
		}
	}
	// language: N{0,2} A* E? (F|X)?
	{
		w := word
		n := 0
		for strings.HasPrefix(w, "N") && n < 2 {
			w = w[1:]
			n++
		}
		for strings.HasPrefix(w, "A") {
			w = w[1:]
		}
		if strings.HasPrefix(w, "E") {
			w = w[1:]
		}
		if strings.HasPrefix(w, "F") || strings.HasPrefix(w, "X") {
			w = w[1:]
		}
		if w != "" {
			v.issue("C07", "C07/order", "emitted session states %q are not in protocol order (N=negotiating A=authenticating E=established F=finished X=failed)", word)
		}
		if strings.Contains(word, "F") && !strings.Contains(word, "E") {
			v.issue("C07", "C07/finished-without-established", "finished emitted on a session that was never established: %q", word)
		}
	}
	// state trace never moves backwards
	last := -1
	for _, e := range tr.Events {
		if e.T == "state" && e.SessionID == tr.SessionID && tr.SessionID != "" {
			to := stateOrder[e.To]
			if to < last {
				v.issue("C07", "C07/state-regression", "server channel state moved from %s to %s", e.From, e.To)
			}
			if stateOrder[e.From] > to {
				v.issue("C07", "C07/state-regression", "server channel state moved from %s to %s", e.From, e.To)
			}
			last = to
		}
	}
	// handlers never run before establishment (C06)
	estSeen := false
	for _, e := range tr.Events {
		if (e.T == "recv" && e.Env != nil && e.Env["state"] == "established") || (e.T == "state" && e.To == "established" && e.SessionID == tr.SessionID && tr.SessionID != "") {
			estSeen = true
		}
		if e.T == "handler" && !estSeen {
			v.issue("C06", "C06/handler-before-established/"+e.Detail, "a %s handler ran at step %d before the session was established (script %v)", e.Detail, e.Step, tr.Script)
		}
	}

	// ---- step-by-step reference machine ---------------------------------------------------------------
	stage := "S0"
	authIdx := 0
	confirmedEnc, confirmedComp := "none", "none"
	negotiated := false
	pendingTLSBytes := 0
	for _, i := range order {
		s := steps[i]
		syms := strings.Fields(s.sym)
		// a pipelined step is judged on its first data symbol only for the stage machine; the rest is "outside"
		sym := s.sym
		pipelined := false
		if len(syms) > 1 && syms[0] == "pipeline" {
			pipelined = true
			if len(syms) > 1 {
				sym = syms[1]
			}
		}
		if pipelined {
			// several client envelopes in one write: the per-step reference does not apply, only the generic clauses
			v.Labels = append(v.Labels, "pipelined")
			v.Conforming = false
			break
		}
		si := parseSym(sym)
		label := ""
		expectFail := false   // expect exactly one failed + close
		expectClose := false  // expect the connection to be closed (outside the exchange)
		idOK := si.idv == "id" || (si.idv == "none" && tr.SessionID == "")
		firstState := func() string {
			if len(s.recv) > 0 && s.recv[0].Env != nil {
				st, _ := s.recv[0].Env["state"].(string)
				return st
			}
			return ""
		}
		switch {
		case stage == "S3" && (si.kind == "disconnect" || si.kind == "halfclose"):
			// losing an established session is C19's subject
			label = "established:eof"
			stage = "END"
		case si.kind == "disconnect":
			label = "outside:disconnect"
			expectClose = true
		case si.kind == "halfclose":
			label = "outside:halfclose"
			expectClose = true
		case stage == "S3":
			if si.kind == "data" {
				label = "established:data"
			} else if si.kind == "session" && si.state == "finishing" && si.decodable {
				label = "established:finishing"
				if firstState() != "finished" {
					v.issue("C07", "C07/no-finished-on-finishing", "client sent finishing on an established session; server answered %v", envs(s.recv))
				}
				expectClose = true
			} else {
				label = "established:other"
				expectClose = true
			}
		case stage == "S1T":
			// the server's TLS layer needs a whole record header (5 bytes) before it can tell that this is no handshake
			if b, _ := BuildSymbol(sym, tr.SessionID); len(b) > 0 {
				pendingTLSBytes += len(b)
			}
			if pendingTLSBytes < 5 {
				label = "outside:cleartext-after-tls-confirmation(short)"
				if v.OutsideAt < 0 {
					v.OutsideAt = i
				}
				break
			}
			label = "outside:cleartext-after-tls-confirmation"
			expectClose = true
			if v.OutsideAt < 0 {
				v.OutsideAt = i
			}
		case si.kind == "data":
			label = "outside:data@" + stage
			expectClose = true
			if v.OutsideAt < 0 {
				v.OutsideAt = i
			}
			if len(s.handler) > 0 {
				v.issue("C06", "C06/data-dispatched-before-established", "a data envelope injected at stage %s reached a handler", stage)
			}
		case si.kind == "undecodable" || (si.kind == "session" && !si.decodable):
			label = "outside:undecodable@" + stage
			expectClose = true
			if v.OutsideAt < 0 {
				v.OutsideAt = i
			}
		case stage == "S0":
			if si.state == "new" && si.idv == "none" {
				label = "conforming:new"
				st := firstState()
				switch st {
				case "negotiating":
					v.ReachedNeg = true
					env := s.recv[0].Env
					gotC, okC := strList(env["compressionOptions"])
					gotE, okE := strList(env["encryptionOptions"])
					if !okC || !okE || !eqList(gotC, offerC) || !eqList(gotE, offerE) {
						v.issue("C09", "C09/offer", "configured comp=%v enc=%v, transport supports comp=[none] enc=[none tls]: expected offer comp=%v enc=%v, server offered comp=%v enc=%v", cfg.Comp, cfg.Enc, offerC, offerE, env["compressionOptions"], env["encryptionOptions"])
					}
					stage = "S1"
				case "authenticating":
					if mustNegotiate {
						v.issue("C07", "C07/negotiation-skipped", "several options are configured (comp=%v enc=%v) but the server skipped negotiation", offerC, offerE)
						v.issue("C09", "C09/negotiation-skipped", "several options are configured (comp=%v enc=%v) but the server skipped negotiation", offerC, offerE)
					}
					if c10pre {
						v.issue("C10", "C10/auth-request-in-cleartext", "EncryptOpts=%v excludes none and the connection can do TLS, but the server requested credentials on the cleartext connection", cfg.Enc)
					}
					v.ReachedAuth = true
					got, _ := strList(s.recv[0].Env["schemeOptions"])
					if !eqList(got, cfg.Schemes) {
						v.issue("C07", "C07/scheme-options", "authentication request lists %v, configured %v", s.recv[0].Env["schemeOptions"], cfg.Schemes)
					}
					stage = "S2"
				default:
					// no offer possible (e.g. empty intersection) => the session may only fail / close
					if len(offerC) == 0 || len(offerE) == 0 {
						label = "conforming:new(no-options)"
						expectClose = true
					} else {
						v.issue("C07", "C07/no-answer-to-new", "a fresh new session was answered with %v", envs(s.recv))
						expectClose = true
					}
				}
				if len(s.recv) > 1 {
					v.issue("C07", "C07/extra-emission", "more than one envelope in answer to new: %v", envs(s.recv))
				}
			} else {
				label = "violation:first-not-fresh-new"
				expectFail = true
			}
		case stage == "S1":
			okSel := si.state == "negotiating" && idOK && si.idv == "id" && inList(offerC, si.comp) && inList(offerE, si.enc)
			if okSel {
				label = "conforming:negotiate"
				negotiated = true
				if len(s.recv) == 0 || s.recv[0].Env == nil || s.recv[0].Env["state"] != "negotiating" || s.recv[0].Env["compression"] != si.comp || s.recv[0].Env["encryption"] != si.enc {
					v.issue("C09", "C09/confirmation", "client selected offered pair (%s,%s); server answered %v", si.comp, si.enc, envs(s.recv))
					expectClose = true
					break
				}
				confirmedComp, confirmedEnc = si.comp, si.enc
				if si.enc == "tls" && !cfg.TLSCapable {
					label = "outside:tls-not-possible"
					expectClose = true
					if v.OutsideAt < 0 {
						v.OutsideAt = i
					}
					break
				}
				if si.enc == "tls" && cfg.ClientSkipsTLS {
					// the server now waits for the TLS handshake; this client will go on in cleartext instead
					label = "conforming:negotiate(tls-pending)"
					stage = "S1T"
					break
				}
				if si.enc == "tls" && !s.tlsUp {
					v.issue("C09", "C09/tls-upgrade-failed", "tls was confirmed on a TLS-capable connection but the handshake with the server failed")
					expectClose = true
					break
				}
				// then the authentication request
				if len(s.recv) < 2 || s.recv[1].Env == nil || s.recv[1].Env["state"] != "authenticating" {
					v.issue("C07", "C07/no-auth-request-after-negotiation", "after the confirmation the server sent %v instead of the authentication request", envs(s.recv[1:]))
					expectClose = true
					break
				}
				if si.enc == "tls" && !s.recv[1].OverTLS {
					v.issue("C09", "C09/auth-request-not-encrypted", "authentication request arrived outside TLS after tls was confirmed")
				}
				got, _ := strList(s.recv[1].Env["schemeOptions"])
				if !eqList(got, cfg.Schemes) {
					v.issue("C07", "C07/scheme-options", "authentication request lists %v, configured %v", s.recv[1].Env["schemeOptions"], cfg.Schemes)
				}
				v.ReachedAuth = true
				stage = "S2"
			} else {
				kind := "out-of-order"
				if si.state == "negotiating" && si.idv == "id" {
					kind = "unoffered-option"
				} else if si.idv != "id" {
					kind = "wrong-id"
				}
				label = "violation:" + kind
				expectFail = true
				// C09: any other choice must be answered with failed, never confirmed
				for _, e := range s.recv {
					if e.Env != nil && e.Env["state"] == "negotiating" {
						v.issue("C09", "C09/confirmed-unoffered", "client answered the offer comp=%v enc=%v with %s (comp=%q enc=%q id=%s) and the server confirmed %v", offerC, offerE, sym, si.comp, si.enc, si.idv, e.Env)
					}
				}
			}
		case stage == "S2":
			okAuth := si.state == "authenticating" && si.idv == "id" && inList(cfg.Schemes, si.scheme)
			if okAuth {
				v.AuthRounds++
				outcome := ""
				if cfg.AuthSource == "tape" {
					outcome = tapeOutcome(cfg, authIdx)
				} else {
					outcome = builderOutcome(cfg, si.cred)
				}
				authIdx++
				label = "conforming:auth(" + outcome + ")"
				// the callback must have been invoked exactly once for this envelope, with what the envelope carried
				if len(s.auth) != 1 {
					v.issue("C03", "C03/authenticate-invocations", "authenticating envelope %s led to %d Authenticate invocations", sym, len(s.auth))
				} else {
					a := s.auth[0]
					if a.Identity != si.from {
						v.issue("C03", "C03/authenticate-identity", "Authenticate was called with identity %q, the envelope's from identity is %q", a.Identity, si.from)
					}
					wantType := map[string]string{"guest": "*lime.GuestAuthentication", "plain": "*lime.PlainAuthentication", "key": "*lime.KeyAuthentication", "transport": "*lime.TransportAuthentication", "external": "*lime.ExternalAuthentication"}[si.scheme]
					if si.cred == "scheme-only" {
						wantType = "nil"
					}
					if a.AuthType != wantType {
						v.issue("C03", "C03/authenticate-credentials", "Authenticate was called with %s %s for an envelope carrying scheme %q (%s)", a.AuthType, a.AuthJSON, si.scheme, si.cred)
					}
					if want, ok := credJSON(si.cred); ok && a.AuthType == wantType && !sameJSON(want, a.AuthJSON) {
						v.issue("C03", "C03/authenticate-credentials-content", "Authenticate was called with credentials %s; the envelope (%s) carried %s", a.AuthJSON, si.cred, want)
					}
					if negotiated && a.Enc != confirmedEnc {
						v.issue("C09", "C09/encryption-at-authenticate", "negotiation confirmed encryption %q but the server transport reports %q while authenticating", confirmedEnc, a.Enc)
					}
					if negotiated && a.Comp != confirmedComp {
						v.issue("C09", "C09/compression-at-authenticate", "negotiation confirmed compression %q but the server transport reports %q while authenticating", confirmedComp, a.Comp)
					}
				}
				switch outcome {
				case "member", "authority":
					if cfg.Register == "error" {
						label += "+register-error"
						expectClose = true
						if v.OutsideAt < 0 {
							v.OutsideAt = i
						}
						if firstState() == "established" {
							v.issue("C03", "C03/established-despite-register-error", "Register returned an error but the server announced an established session")
						}
					} else {
						if firstState() != "established" {
							v.issue("C07", "C07/not-established", "credentials were accepted (outcome %s) and registration succeeded, but the server answered %v", outcome, envs(s.recv))
							expectClose = true
						} else {
							stage = "S3"
						}
					}
				case "roundtrip", "roundtrip-norole":
					if firstState() != "authenticating" || s.recv[0].Env["authentication"] == nil {
						v.issue("C07", "C07/no-roundtrip", "Authenticate asked for a round trip; server answered %v", envs(s.recv))
						expectClose = true
					}
				case "member+cut", "unknown+cut":
					// the client vanished inside the authenticator: nothing can be established any more
					label += "=peer-vanished"
					expectClose = true
					if v.OutsideAt < 0 {
						v.OutsideAt = i
					}
				case "unknown", "norole":
					label += "=rejected"
					expectFail = true
				default:
					label += "=callback-error"
					expectClose = true
					if v.OutsideAt < 0 {
						v.OutsideAt = i
					}
				}
			} else {
				kind := "out-of-order"
				if si.state == "authenticating" && si.idv == "id" {
					kind = "unoffered-scheme"
				} else if si.idv != "id" {
					kind = "wrong-id"
				}
				label = "violation:" + kind
				expectFail = true
				if len(s.auth) > 0 {
					v.issue("C03", "C03/authenticate-on-violation/"+kind, "Authenticate was invoked for an envelope that violates the exchange (%s: %s), offered schemes %v", kind, sym, cfg.Schemes)
				}
			}
		}
		if pipelined {
			label += "+pipelined"
		}
		if strings.HasPrefix(label, "violation") {
			if v.ViolationAt < 0 {
				v.ViolationAt = i
			}
			v.Conforming = false
		}
		if strings.HasPrefix(label, "outside") || strings.Contains(label, "rejected") || strings.Contains(label, "error") || strings.Contains(label, "vanished") {
			v.Conforming = false
		}
		if v.FailureClass == "" && (expectFail || expectClose) && stage != "S3" {
			v.FailureClass = label
		}
		if expectFail && !pipelined {
			// exactly one failed with a reason, nothing more, and the server closes
			nFailed := 0
			for _, e := range s.recv {
				if e.Env != nil && e.Env["state"] == "failed" {
					nFailed++
				}
			}
			if nFailed != 1 || len(s.recv) != 1 {
				v.issue("C07", "C07/violation-not-answered-with-failed/"+strings.TrimPrefix(strings.Split(label, "=")[0], "violation:"), "client step %q at stage %s is a %s; expected exactly one failed session, server answered %v", sym, stage, label, envs(s.recv))
			}
			if !s.closed {
				v.issue("C07", "C07/not-closed-after-failed", "after answering %q (%s) the server did not close the connection", sym, label)
				v.issue("C14", "C14/not-closed/"+strings.Split(label, "(")[0], "after client step %q (%s) the server left the connection open", sym, label)
			}
			stage = "END"
		}
		if expectClose && !expectFail {
			if !s.closed && si.kind == "data" {
				v.issue("C06", "C06/data-did-not-abort-handshake", "a %s envelope injected at stage %s did not abort the handshake: the server keeps the connection open (answered %v)", sym, stage, envs(s.recv))
			}
			if !s.closed && si.kind != "disconnect" {
				v.issue("C14", "C14/not-closed/"+strings.Split(strings.Split(label, "@")[0], "(")[0], "after client step %q (%s, stage %s) the server left the connection open and unserved", sym, label, stage)
			}
			if stage != "S3" {
				stage = "END"
			}
		}
		if stage == "S3" && len(s.recv) > 0 && s.recv[0].Env != nil && s.recv[0].Env["state"] == "established" {
			// C03 (iv): registration after authentication, established announces exactly the registered node
			if len(s.reg) != 1 {
				v.issue("C03", "C03/register-invocations", "session established with %d Register invocations in that step", len(s.reg))
			} else {
				if s.reg[0].Candidate != si.fromFull {
					v.issue("C03", "C03/register-candidate", "Register was called with candidate %q, the authenticating envelope's from is %q", s.reg[0].Candidate, si.fromFull)
				}
				if to, _ := s.recv[0].Env["to"].(string); to != s.reg[0].Node {
					v.issue("C03", "C03/established-node", "Register returned %q but the established session announces to=%q", s.reg[0].Node, s.recv[0].Env["to"])
				}
				if s.reg[0].State == "established" {
					v.issue("C03", "C03/established-before-register", "the channel was already established when Register ran")
				}
			}
			if len(s.estab) == 1 && s.estab[0].Node != "" && len(s.reg) == 1 && s.estab[0].Node != s.reg[0].Node {
				v.issue("C03", "C03/remote-node", "RemoteNode() is %q, Register returned %q", s.estab[0].Node, s.reg[0].Node)
			}
			if negotiated && len(s.estab) == 1 && s.estab[0].Enc != confirmedEnc {
				v.issue("C09", "C09/encryption-at-established", "confirmed %q, transport reports %q at establishment", confirmedEnc, s.estab[0].Enc)
			}
		}
		v.Labels = append(v.Labels, label)
		if stage == "END" {
			break
		}
	}
	v.LabelSeq = strings.Join(v.Labels, " ")

	// ---- C03: no establishment without a successful authentication (independent of the step machine) -----
	legitEstablished := false
	for _, e := range tr.Events {
		if e.T == "established" {
			if e.SessionID != tr.SessionID || tr.SessionID == "" {
				continue // a late callback of an earlier connection's session
			}
			// the callback fires after the envelope went out: it needs an earlier established emission
			if !legitEstablished {
				v.issue("C03", "C03/established-callback-without-session", "the Established callback fired although no established session was announced before; script %v", tr.Script)
			}
			continue
		}
		isEst := (e.T == "recv" && e.Env != nil && e.Env["state"] == "established") || (e.T == "state" && e.To == "established" && e.SessionID == tr.SessionID && tr.SessionID != "")
		if !isEst {
			continue
		}
		legitEstablished = true
		s := steps[e.Step]
		okAuth := false
		if s != nil {
			for _, a := range s.auth {
				if a.Outcome == "member" || a.Outcome == "member+cut" || a.Outcome == "authority" || a.Outcome == "role:member" || a.Outcome == "role:authority" || a.Outcome == "role:rootAuthority" {
					okAuth = true
				}
			}
		}
		if !okAuth {
			v.issue("C03", "C03/established-without-authentication", "the session became established at step %d (%s) without an Authenticate invocation returning a known role in that step; script %v", e.Step, e.T, tr.Script)
		}
		if s != nil {
			si := parseSym(firstDataSym(s.sym))
			if si.state != "authenticating" {
				v.issue("C03", "C03/established-without-credentials", "the session became established in answer to %q, which is not an authenticating envelope", s.sym)
			} else if !inList(cfg.Schemes, si.scheme) {
				v.issue("C03", "C03/established-under-unoffered-scheme", "the session became established under scheme %q; offered schemes are %v", si.scheme, cfg.Schemes)
			} else if si.idv != "id" {
				v.issue("C03", "C03/established-with-wrong-id", "the session became established in answer to an envelope with id variant %q", si.idv)
			}
			if len(s.reg) == 0 {
				v.issue("C03", "C03/established-without-registration", "the session became established without a Register invocation in that step")
			}
		}
	}
	// builder rules (v)
	if cfg.AuthSource != "tape" && v.Established {
		for _, i := range order {
			s := steps[i]
			if len(s.recv) > 0 && s.recv[0].Env != nil && s.recv[0].Env["state"] == "established" {
				si := parseSym(firstDataSym(s.sym))
				want := builderOutcome(cfg, si.cred)
				if want != "member" {
					v.issue("C03", "C03/builder-accepted/"+si.cred, "ServerBuilder-made server established a session for credentials %q (expected outcome %s)", si.cred, want)
				}
			}
		}
	}

	// ---- C10 -------------------------------------------------------------------------------------------
	if c10pre {
		for _, e := range tr.Events {
			switch {
			case e.T == "recv" && e.Env != nil && e.Env["state"] == "authenticating" && !e.OverTLS:
				v.issue("C10", "C10/auth-request-in-cleartext", "EncryptOpts=%v excludes none and the connection can do TLS, but the server requested credentials on the cleartext connection (script %v)", cfg.Enc, tr.Script)
			case (e.T == "auth" || e.T == "auth-builder") && e.Enc == "none":
				v.issue("C10", "C10/authenticate-in-cleartext", "Authenticate ran while the server transport's encryption was none (EncryptOpts=%v, script %v)", cfg.Enc, tr.Script)
			case e.T == "recv" && e.Env != nil && e.Env["state"] == "established" && !e.OverTLS:
				v.issue("C10", "C10/established-in-cleartext", "session established over cleartext although EncryptOpts=%v (script %v)", cfg.Enc, tr.Script)
			case e.T == "established" && e.Enc == "none":
				v.issue("C10", "C10/established-in-cleartext", "session established while the transport's encryption is none although EncryptOpts=%v (script %v)", cfg.Enc, tr.Script)
			}
		}
	}
	// ---- C09: credentials handed to Authenticate after a tls confirmation must have travelled under TLS -----
	{
		tlsConfirmed := false
		sentClear := map[int]bool{} // step -> the client's bytes of that step went out in cleartext
		for _, e := range tr.Events {
			switch {
			case e.T == "recv" && e.Env != nil && e.Env["state"] == "negotiating" && e.Env["encryption"] == "tls" && e.Env["encryptionOptions"] == nil:
				tlsConfirmed = true
			case e.T == "send" && !e.OverTLS:
				sentClear[e.Step] = true
			case (e.T == "auth" || e.T == "auth-builder") && tlsConfirmed && sentClear[e.Step]:
				v.issue("C09", "C09/cleartext-credentials-after-confirmation", "tls was confirmed, yet Authenticate ran on credentials that the client had written before the TLS handshake, in cleartext (step %d of script %v)", e.Step, tr.Script)
			}
		}
	}
	// ---- C09: after a tls confirmation nothing but TLS records on the wire --------------------------------
	if tr.TLSFromS2C >= 0 && tr.TLSFromS2C <= len(tr.WireS2C) && v.TLSUpgraded {
		rest := tr.WireS2C[tr.TLSFromS2C:]
		if !looksLikeTLS(rest) || bytes.Contains(rest, []byte(`"state"`)) {
			v.issue("C09", "C09/cleartext-after-confirmation", "after confirming tls the server wrote bytes that are not TLS records: %q", clipb(rest, 120))
		}
	}
	// ---- C14: callbacks never fire for a session that did not establish; release after disconnect -----------
	if !v.Established {
		for _, e := range tr.Events {
			// (a callback of an earlier connection's session that fires late lands in this trace too: only callbacks
			// that carry this connection's session id are this connection's)
			if (e.T == "established" || e.T == "finished") && e.SessionID == tr.SessionID && tr.SessionID != "" {
				v.issue("C14", "C14/callback-for-unestablished/"+e.T, "the %s callback fired for a connection whose handshake never produced an established session (script %v)", e.T, tr.Script)
			}
		}
	}
	return v
}

func firstDataSym(s string) string {
	f := strings.Fields(s)
	if len(f) > 1 && f[0] == "pipeline" {
		// the relevant symbol of a pipelined step is its last authenticating one, if any
		for k := len(f) - 1; k >= 1; k-- {
			if strings.HasPrefix(f[k], "auth:") {
				return f[k]
			}
		}
		return f[1]
	}
	if len(f) > 0 {
		return f[0]
	}
	return s
}

func envs(l []Ev) string {
	var parts []string
	for _, e := range l {
		if e.Env != nil {
			parts = append(parts, fmt.Sprint(e.Env))
		} else {
			parts = append(parts, fmt.Sprintf("raw:%q", e.Raw))
		}
	}
	if len(parts) == 0 {
		return "nothing"
	}
	return strings.Join(parts, " ; ")
}

func clipb(b []byte, n int) []byte {
	if len(b) > n {
		return b[:n]
	}
	return b
}
