// Package faultconn is an in-memory, byte-tapped, fault-injecting net.Conn pair.
//
// It behaves like a TCP connection at the API boundary: Read returns (n>0,nil) or (0,err);
// Write returns n<len(b) only together with an error; deadlines produce a net.Error with
// Timeout() && Temporary(). Per direction a deterministic plan controls fragmentation,
// injected transient timeouts, short writes, stalls, chunked (yielding) writes and cuts.
package faultconn

import (
	"errors"
	"io"
	"net"
	"runtime"
	"sort"
	"sync"
	"time"
)

type timeoutError struct{ injected bool }

func (e timeoutError) Error() string {
	if e.injected {
		return "i/o timeout (faultconn, injected)"
	}
	return "i/o timeout (faultconn)"
}
func (timeoutError) Timeout() bool   { return true }
func (timeoutError) Temporary() bool { return true }

// ErrReset is the non-temporary error both sides see after a cut.
var ErrReset = errors.New("connection reset (faultconn)")

// ErrClosed is returned on use of a locally closed end.
var ErrClosed = errors.New("use of closed connection (faultconn)")

// ReadPlan shapes what the reading end sees.
type ReadPlan struct {
	Splits        []int64 // absolute stream offsets no single Read may cross
	Chunk         int     // max bytes per Read (0 = unlimited)
	RandMax       int     // if >0: each Read returns at most 1..RandMax bytes (PRNG)
	TimeoutAtCall []int   // Read call indices (0-based) at which a transient timeout is injected first
	TimeoutProb   int     // percent of reads preceded by an injected timeout (PRNG)
	StallProb     int     // percent of reads preceded by a stall
	StallUS       int     // stall length in microseconds
	Seed          uint64
}

// WritePlan shapes what happens to the writing end's writes.
type WritePlan struct {
	ShortAt      []int64 // absolute offsets: a Write crossing one accepts bytes up to it and returns a transient timeout
	ShortRepeat  int     // after a short write, this many further Write calls time out accepting 0 bytes
	Chunk        int     // accept in chunks of this size, yielding in between (0 = whole)
	YieldSleepUS int     // sleep between chunks
	FailAt       int64   // offset at which writes fail permanently (-1 none); bytes before it are delivered
	Seed         uint64
}

type half struct {
	mu        sync.Mutex
	buf       []byte
	capacity  int
	wclosed   bool
	rclosed   bool
	cut       bool
	cutAt     int64
	accepted  int64
	delivered int64
	tapOn     bool
	wire      []byte
	changed   chan struct{}
	hold      bool

	rp ReadPlan
	wp WritePlan

	readCalls, writeCalls                   int
	injReadTimeouts, shortWrites, zeroWrite int
	pendingZero                             int
	usedShort                               map[int64]bool
	rstate, wstate                          uint64
	usedTimeoutCall                         map[int]bool
	splitReads                              int
	closeTime                               time.Time
	waiting                                 int // Read calls currently blocked on an empty buffer
}

func newHalf(capacity int) *half {
	if capacity <= 0 {
		capacity = 1 << 30
	}
	return &half{capacity: capacity, cutAt: -1, changed: make(chan struct{}), tapOn: true,
		usedShort: map[int64]bool{}, usedTimeoutCall: map[int]bool{}, wp: WritePlan{FailAt: -1}}
}

func (h *half) signal() {
	close(h.changed)
	h.changed = make(chan struct{})
}

func next(s *uint64) uint64 {
	*s += 0x9e3779b97f4a7c15
	z := *s
	z = (z ^ (z >> 30)) * 0xbf58476d1ce4e5b9
	z = (z ^ (z >> 27)) * 0x94d049bb133111eb
	return z ^ (z >> 31)
}

// Conn is one end of the pair.
type Conn struct {
	name string
	in   *half
	out  *half

	dmu sync.Mutex
	rdl time.Time
	wdl time.Time

	cmu      sync.Mutex
	closed   bool
	closedAt time.Time
}

// Options for a pair.
type Options struct {
	CapAtoB int // buffer capacity A→B (0 = unbounded)
	CapBtoA int
}

// Pair creates the two ends.
func Pair(o Options) (a, b *Conn) {
	ab := newHalf(o.CapAtoB)
	ba := newHalf(o.CapBtoA)
	a = &Conn{name: "A", in: ba, out: ab}
	b = &Conn{name: "B", in: ab, out: ba}
	return
}

// SetReadPlan sets the plan for data this end reads.
func (c *Conn) SetReadPlan(p ReadPlan) {
	c.in.mu.Lock()
	sort.Slice(p.Splits, func(i, j int) bool { return p.Splits[i] < p.Splits[j] })
	c.in.rp = p
	c.in.rstate = p.Seed
	c.in.mu.Unlock()
}

// SetWritePlan sets the plan for data this end writes.
func (c *Conn) SetWritePlan(p WritePlan) {
	c.out.mu.Lock()
	sort.Slice(p.ShortAt, func(i, j int) bool { return p.ShortAt[i] < p.ShortAt[j] })
	c.out.wp = p
	c.out.wstate = p.Seed
	c.out.mu.Unlock()
}

// CutOutgoingAt cuts the connection when this end has written n bytes in total.
func (c *Conn) CutOutgoingAt(n int64) {
	c.out.mu.Lock()
	c.out.cutAt = n
	c.out.mu.Unlock()
}

// Hold makes reads on this end block (data accumulates) until Release.
func (c *Conn) Hold() {
	c.in.mu.Lock()
	c.in.hold = true
	c.in.mu.Unlock()
}

func (c *Conn) Release() {
	c.in.mu.Lock()
	c.in.hold = false
	c.in.signal()
	c.in.mu.Unlock()
}

// Inject puts bytes into the stream this end reads, as if the peer had written them.
func (c *Conn) Inject(b []byte) {
	h := c.in
	h.mu.Lock()
	h.buf = append(h.buf, b...)
	h.accepted += int64(len(b))
	if h.tapOn {
		h.wire = append(h.wire, b...)
	}
	h.signal()
	h.mu.Unlock()
}

// Stats of the direction this end reads.
type Stats struct {
	Accepted, Delivered                   int64
	ReadCalls, WriteCalls                 int
	InjReadTimeouts, ShortWrites, ZeroWrites int
	SplitReads                            int
}

func (h *half) stats() Stats {
	h.mu.Lock()
	defer h.mu.Unlock()
	return Stats{h.accepted, h.delivered, h.readCalls, h.writeCalls, h.injReadTimeouts, h.shortWrites, h.zeroWrite, h.splitReads}
}

func (c *Conn) InStats() Stats  { return c.in.stats() }
func (c *Conn) OutStats() Stats { return c.out.stats() }

// Delivered is the number of bytes handed to this end's Read calls so far.
func (c *Conn) Delivered() int64 {
	c.in.mu.Lock()
	defer c.in.mu.Unlock()
	return c.in.delivered
}

// Peek returns a copy of up to n bytes waiting to be read by this end, without consuming them.
func (c *Conn) Peek(n int) []byte {
	c.in.mu.Lock()
	defer c.in.mu.Unlock()
	if n > len(c.in.buf) {
		n = len(c.in.buf)
	}
	return append([]byte(nil), c.in.buf[:n]...)
}

// Buffered is the number of bytes waiting to be read by this end.
func (c *Conn) Buffered() int {
	c.in.mu.Lock()
	defer c.in.mu.Unlock()
	return len(c.in.buf)
}

// WireOut returns a copy of all bytes this end put on the wire (accepted), in order.
func (c *Conn) WireOut() []byte {
	c.out.mu.Lock()
	defer c.out.mu.Unlock()
	return append([]byte(nil), c.out.wire...)
}

// WireIn returns a copy of all bytes the peer put on the wire towards this end.
func (c *Conn) WireIn() []byte {
	c.in.mu.Lock()
	defer c.in.mu.Unlock()
	return append([]byte(nil), c.in.wire...)
}

// SetTap switches wire recording of both directions (on by default).
func (c *Conn) SetTap(on bool) {
	c.in.mu.Lock()
	c.in.tapOn = on
	c.in.mu.Unlock()
	c.out.mu.Lock()
	c.out.tapOn = on
	c.out.mu.Unlock()
}

// PeerClosed reports whether the other end closed (or the stream was cut).
func (c *Conn) PeerClosed() bool {
	c.in.mu.Lock()
	defer c.in.mu.Unlock()
	return c.in.wclosed || c.in.cut
}

// Closed reports whether this end was closed locally, and when.
func (c *Conn) Closed() (bool, time.Time) {
	c.cmu.Lock()
	defer c.cmu.Unlock()
	return c.closed, c.closedAt
}

func (c *Conn) isClosed() bool {
	c.cmu.Lock()
	defer c.cmu.Unlock()
	return c.closed
}

func (c *Conn) Read(b []byte) (int, error) {
	if len(b) == 0 {
		return 0, nil
	}
	h := c.in
	injectedOnce := false
	for {
		if c.isClosed() {
			return 0, ErrClosed
		}
		c.dmu.Lock()
		dl := c.rdl
		c.dmu.Unlock()
		if !dl.IsZero() && !time.Now().Before(dl) {
			return 0, timeoutError{}
		}
		h.mu.Lock()
		if !injectedOnce {
			call := h.readCalls
			h.readCalls++
			injectedOnce = true
			inject := false
			for _, k := range h.rp.TimeoutAtCall {
				if k == call && !h.usedTimeoutCall[k] {
					h.usedTimeoutCall[k] = true
					inject = true
				}
			}
			if !inject && h.rp.TimeoutProb > 0 && int(next(&h.rstate)%100) < h.rp.TimeoutProb {
				inject = true
			}
			stall := 0
			if h.rp.StallProb > 0 && int(next(&h.rstate)%100) < h.rp.StallProb {
				stall = h.rp.StallUS
			}
			if inject {
				h.injReadTimeouts++
				h.mu.Unlock()
				return 0, timeoutError{injected: true}
			}
			if stall > 0 {
				h.mu.Unlock()
				time.Sleep(time.Duration(stall) * time.Microsecond)
				continue
			}
		}
		if len(h.buf) > 0 && !h.hold {
			n := len(h.buf)
			if n > len(b) {
				n = len(b)
			}
			if h.rp.Chunk > 0 && n > h.rp.Chunk {
				n = h.rp.Chunk
			}
			if h.rp.RandMax > 0 {
				m := 1 + int(next(&h.rstate)%uint64(h.rp.RandMax))
				if n > m {
					n = m
				}
			}
			// never cross a split offset
			for _, s := range h.rp.Splits {
				if s > h.delivered && s < h.delivered+int64(n) {
					n = int(s - h.delivered)
					h.splitReads++
					break
				}
			}
			copy(b, h.buf[:n])
			h.buf = h.buf[n:]
			h.delivered += int64(n)
			h.signal()
			h.mu.Unlock()
			return n, nil
		}
		if len(h.buf) == 0 {
			if h.cut {
				h.mu.Unlock()
				return 0, ErrReset
			}
			if h.wclosed {
				h.mu.Unlock()
				return 0, io.EOF
			}
		}
		ch := h.changed
		h.waiting++
		h.mu.Unlock()
		err := c.wait(ch, dl)
		h.mu.Lock()
		h.waiting--
		h.mu.Unlock()
		if err != nil {
			return 0, err
		}
	}
}

// ReadBlocked reports whether a Read on this end is currently blocked with nothing buffered:
// this end has consumed everything it was sent and is waiting for more.
func (c *Conn) ReadBlocked() bool {
	c.in.mu.Lock()
	defer c.in.mu.Unlock()
	return c.in.waiting > 0 && len(c.in.buf) == 0 && !c.in.wclosed && !c.in.cut
}

func (c *Conn) wait(ch chan struct{}, dl time.Time) error {
	if dl.IsZero() {
		select {
		case <-ch:
			return nil
		case <-time.After(50 * time.Millisecond):
			// re-check closed flag / deadlines changed meanwhile
			return nil
		}
	}
	d := time.Until(dl)
	if d <= 0 {
		return timeoutError{}
	}
	if d > 50*time.Millisecond {
		d = 50 * time.Millisecond
		t := time.NewTimer(d)
		defer t.Stop()
		select {
		case <-ch:
		case <-t.C:
		}
		return nil
	}
	t := time.NewTimer(d)
	defer t.Stop()
	select {
	case <-ch:
		return nil
	case <-t.C:
		return timeoutError{}
	}
}

func (c *Conn) Write(b []byte) (int, error) {
	h := c.out
	written := 0
	first := true
	for {
		if c.isClosed() {
			return written, ErrClosed
		}
		c.dmu.Lock()
		dl := c.wdl
		c.dmu.Unlock()
		if !dl.IsZero() && !time.Now().Before(dl) {
			return written, timeoutError{}
		}
		h.mu.Lock()
		if first {
			first = false
			h.writeCalls++
			if h.pendingZero > 0 {
				h.pendingZero--
				h.zeroWrite++
				h.mu.Unlock()
				return 0, timeoutError{injected: true}
			}
		}
		if h.rclosed || h.cut {
			h.mu.Unlock()
			return written, ErrReset
		}
		if written == len(b) {
			h.mu.Unlock()
			return written, nil
		}
		room := h.capacity - len(h.buf)
		if room <= 0 {
			ch := h.changed
			h.mu.Unlock()
			if err := c.wait(ch, dl); err != nil {
				return written, err
			}
			continue
		}
		n := len(b) - written
		if n > room {
			n = room
		}
		if h.wp.Chunk > 0 && n > h.wp.Chunk {
			n = h.wp.Chunk
		}
		short := false
		for _, s := range h.wp.ShortAt {
			if h.usedShort[s] || s < h.accepted {
				continue
			}
			// this Write call would put the byte at offset s on the wire: stop exactly before it
			if s < h.accepted+int64(len(b)-written) && s-h.accepted <= int64(n) {
				n = int(s - h.accepted)
				short = true
				h.usedShort[s] = true
			}
			break
		}
		failNow := false
		if h.wp.FailAt >= 0 && h.accepted+int64(n) > h.wp.FailAt {
			n = int(h.wp.FailAt - h.accepted)
			if n < 0 {
				n = 0
			}
			failNow = true
		}
		cutNow := false
		if h.cutAt >= 0 && h.accepted+int64(n) > h.cutAt {
			n = int(h.cutAt - h.accepted)
			if n < 0 {
				n = 0
			}
			cutNow = true
		}
		if n > 0 {
			h.buf = append(h.buf, b[written:written+n]...)
			if h.tapOn {
				h.wire = append(h.wire, b[written:written+n]...)
			}
			h.accepted += int64(n)
			written += n
		}
		if cutNow || failNow {
			h.cut = true
			h.signal()
			h.mu.Unlock()
			// a cut affects both directions
			o := c.in
			o.mu.Lock()
			o.cut = true
			o.signal()
			o.mu.Unlock()
			return written, ErrReset
		}
		if short {
			h.shortWrites++
			h.pendingZero = h.wp.ShortRepeat
			h.signal()
			h.mu.Unlock()
			return written, timeoutError{injected: true}
		}
		h.signal()
		chunked := h.wp.Chunk > 0
		sl := h.wp.YieldSleepUS
		h.mu.Unlock()
		if chunked && written < len(b) {
			if sl > 0 {
				time.Sleep(time.Duration(sl) * time.Microsecond)
			} else {
				runtime.Gosched()
			}
		}
	}
}

// Cut severs the connection now (both directions): pending data is still readable, then ErrReset.
func (c *Conn) Cut() {
	for _, h := range []*half{c.in, c.out} {
		h.mu.Lock()
		h.cut = true
		h.signal()
		h.mu.Unlock()
	}
}

func (c *Conn) Close() error {
	c.cmu.Lock()
	if c.closed {
		c.cmu.Unlock()
		return ErrClosed
	}
	c.closed = true
	c.closedAt = time.Now()
	c.cmu.Unlock()
	c.out.mu.Lock()
	c.out.wclosed = true
	c.out.closeTime = time.Now()
	c.out.signal()
	c.out.mu.Unlock()
	c.in.mu.Lock()
	c.in.rclosed = true
	c.in.signal()
	c.in.mu.Unlock()
	return nil
}

// CloseWrite half-closes: the peer reads EOF after draining, this end can still read.
func (c *Conn) CloseWrite() error {
	c.out.mu.Lock()
	c.out.wclosed = true
	c.out.signal()
	c.out.mu.Unlock()
	return nil
}

type addr string

func (a addr) Network() string { return "faultconn" }
func (a addr) String() string  { return string(a) }

func (c *Conn) LocalAddr() net.Addr  { return addr("fault-" + c.name) }
func (c *Conn) RemoteAddr() net.Addr { return addr("fault-peer-of-" + c.name) }

func (c *Conn) SetDeadline(t time.Time) error {
	c.dmu.Lock()
	c.rdl, c.wdl = t, t
	c.dmu.Unlock()
	c.in.mu.Lock()
	c.in.signal()
	c.in.mu.Unlock()
	c.out.mu.Lock()
	c.out.signal()
	c.out.mu.Unlock()
	return nil
}

func (c *Conn) SetReadDeadline(t time.Time) error {
	c.dmu.Lock()
	c.rdl = t
	c.dmu.Unlock()
	c.in.mu.Lock()
	c.in.signal()
	c.in.mu.Unlock()
	return nil
}

func (c *Conn) SetWriteDeadline(t time.Time) error {
	c.dmu.Lock()
	c.wdl = t
	c.dmu.Unlock()
	c.out.mu.Lock()
	c.out.signal()
	c.out.mu.Unlock()
	return nil
}
