package gen

import (
	"fmt"
	"net/url"
	"reflect"
	"time"

	lime "github.com/takenet/lime-go"
)

// Eq is the normalised equality of the oracles: nil and empty maps/slices are equal (omitempty makes them
// indistinguishable on the wire), pointers and interfaces are dereferenced (decoders return *TextDocument where
// callers pass TextDocument), time.Time compares with Equal, URIs/URLs by canonical string, JSON numbers by value.
// Nothing else is relaxed. It returns the path of the first difference.
func Eq(a, b interface{}) (bool, string) {
	return eqv(reflect.ValueOf(a), reflect.ValueOf(b), "$")
}

var (
	timeType = reflect.TypeOf(time.Time{})
	uriType  = reflect.TypeOf(lime.URI{})
	urlType  = reflect.TypeOf(url.URL{})
)

func deref(v reflect.Value) (reflect.Value, bool) {
	// returns the underlying value and whether it is a nil pointer/interface chain
	for v.IsValid() && (v.Kind() == reflect.Ptr || v.Kind() == reflect.Interface) {
		if v.IsNil() {
			return v, true
		}
		v = v.Elem()
	}
	return v, !v.IsValid()
}

func isNumber(k reflect.Kind) bool {
	switch k {
	case reflect.Int, reflect.Int8, reflect.Int16, reflect.Int32, reflect.Int64, reflect.Uint, reflect.Uint8, reflect.Uint16, reflect.Uint32, reflect.Uint64, reflect.Float32, reflect.Float64:
		return true
	}
	return false
}

func num(v reflect.Value) float64 {
	switch v.Kind() {
	case reflect.Int, reflect.Int8, reflect.Int16, reflect.Int32, reflect.Int64:
		return float64(v.Int())
	case reflect.Uint, reflect.Uint8, reflect.Uint16, reflect.Uint32, reflect.Uint64:
		return float64(v.Uint())
	default:
		return v.Float()
	}
}

func eqv(a, b reflect.Value, path string) (bool, string) {
	a, an := deref(a)
	b, bn := deref(b)
	if an || bn {
		if an && bn {
			return true, ""
		}
		// nil vs empty map/slice are equal
		x := a
		if an {
			x = b
		}
		if x.IsValid() && (x.Kind() == reflect.Map || x.Kind() == reflect.Slice) && x.Len() == 0 {
			return true, ""
		}
		return false, path + ": nil vs non-nil"
	}
	if isNumber(a.Kind()) && isNumber(b.Kind()) {
		if num(a) == num(b) {
			return true, ""
		}
		return false, fmt.Sprintf("%s: %v != %v", path, num(a), num(b))
	}
	if a.Type() != b.Type() {
		// map[string]interface{} vs JsonDocument etc.: compare by kind when both are maps/slices
		if a.Kind() != b.Kind() || (a.Kind() != reflect.Map && a.Kind() != reflect.Slice) {
			return false, fmt.Sprintf("%s: type %v != %v", path, a.Type(), b.Type())
		}
	}
	switch a.Type() {
	case timeType:
		if a.CanInterface() && b.CanInterface() {
			if a.Interface().(time.Time).Equal(b.Interface().(time.Time)) {
				return true, ""
			}
			return false, fmt.Sprintf("%s: time %v != %v", path, a.Interface(), b.Interface())
		}
	case uriType:
		if a.CanAddr() && b.CanAddr() && a.CanInterface() && b.CanInterface() {
			sa := a.Addr().Interface().(*lime.URI).String()
			sb := b.Addr().Interface().(*lime.URI).String()
			if sa == sb {
				return true, ""
			}
			return false, fmt.Sprintf("%s: uri %q != %q", path, sa, sb)
		}
	case urlType:
		if a.CanAddr() && b.CanAddr() && a.CanInterface() && b.CanInterface() {
			sa := a.Addr().Interface().(*url.URL).String()
			sb := b.Addr().Interface().(*url.URL).String()
			if sa == sb {
				return true, ""
			}
			return false, fmt.Sprintf("%s: url %q != %q", path, sa, sb)
		}
	}
	switch a.Kind() {
	case reflect.Bool:
		if a.Bool() == b.Bool() {
			return true, ""
		}
		return false, fmt.Sprintf("%s: %v != %v", path, a.Bool(), b.Bool())
	case reflect.String:
		if a.String() == b.String() {
			return true, ""
		}
		return false, fmt.Sprintf("%s: %q != %q", path, a.String(), b.String())
	case reflect.Slice, reflect.Array:
		if a.Len() != b.Len() {
			return false, fmt.Sprintf("%s: len %d != %d", path, a.Len(), b.Len())
		}
		for i := 0; i < a.Len(); i++ {
			if ok, p := eqv(a.Index(i), b.Index(i), fmt.Sprintf("%s[%d]", path, i)); !ok {
				return false, p
			}
		}
		return true, ""
	case reflect.Map:
		if a.Len() != b.Len() {
			return false, fmt.Sprintf("%s: map len %d != %d", path, a.Len(), b.Len())
		}
		it := a.MapRange()
		for it.Next() {
			bv := b.MapIndex(it.Key())
			if !bv.IsValid() {
				return false, fmt.Sprintf("%s: key %v missing", path, it.Key())
			}
			if ok, p := eqv(it.Value(), bv, fmt.Sprintf("%s[%v]", path, it.Key())); !ok {
				return false, p
			}
		}
		return true, ""
	case reflect.Struct:
		for i := 0; i < a.NumField(); i++ {
			if ok, p := eqv(a.Field(i), b.Field(i), path+"."+a.Type().Field(i).Name); !ok {
				return false, p
			}
		}
		return true, ""
	case reflect.Func, reflect.Chan, reflect.UnsafePointer:
		return true, ""
	}
	return false, fmt.Sprintf("%s: unsupported kind %v", path, a.Kind())
}
