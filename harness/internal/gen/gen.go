// Package gen generates well-formed Lime envelopes and provides the normalised equality used by the oracles.
package gen

import (
	"fmt"
	"net/url"
	"sort"
	"strings"
	"time"

	lime "github.com/takenet/lime-go"
	"github.com/takenet/lime-go/chat"

	"verif/harness/internal/core"
)

// VerifDoc is the harness-registered custom document type.
type VerifDoc struct {
	Token string            `json:"token"`
	N     int               `json:"n,omitempty"`
	Tags  []string          `json:"tags,omitempty"`
	Attrs map[string]string `json:"attrs,omitempty"`
	Inner *VerifInner       `json:"inner,omitempty"`
}

type VerifInner struct {
	A string  `json:"a"`
	B float64 `json:"b"`
	C bool    `json:"c"`
}

func MediaTypeVerifDoc() lime.MediaType {
	return lime.MediaType{Type: "application", Subtype: "x-verif.doc", Suffix: "json"}
}

func (d *VerifDoc) MediaType() lime.MediaType { return MediaTypeVerifDoc() }

var registered = false

// Register registers chat documents and the custom type (idempotent, call before any goroutine decodes).
func Register() {
	if registered {
		return
	}
	registered = true
	chat.RegisterChatDocuments()
	lime.RegisterDocumentFactory(func() lime.Document { return &VerifDoc{} })
}

var asciiWords = []string{"a", "b", "alice", "bob", "postmaster", "limeprotocol.org", "home", "x-1", "A.B_c", "0", "node-7", "msging.net"}
var unicodeWords = []string{"ação", "日本語", "Ünï©ødé", "𝔘𝔫𝔦", "emoji😀", "кириллица", " line", " nbsp", "é", "ß"}
var escapeWords = []string{"quo\"te", "back\\slash", "new\nline", "tab\there", "nul\u0000l", "<html>&amp;", "\r\n", "\u001f", "'single'", "{\"json\":1}", "[1,2]", "null", "true", " lead", "trail ", "\x7f"}
var sepWords = []string{"a@b", "a/b", "a+b", "x:y", "?q=1", "%41", "#frag", "a b", "@", "/", "+"}

// G is a seeded generator.
type G struct {
	R        *core.Rng
	MaxDepth int
	// Paths collects document-kind paths generated (for evidence).
	Paths map[string]bool
}

func New(seed uint64) *G { return &G{R: core.NewRng(seed), MaxDepth: 4, Paths: map[string]bool{}} }

// Str returns an arbitrary valid-UTF-8 string; forbid lists characters that must not appear.
func (g *G) Str(forbid string) string {
	var s string
	switch g.R.Intn(10) {
	case 0, 1, 2, 3:
		s = g.R.Pick(asciiWords)
	case 4, 5:
		s = g.R.Pick(unicodeWords)
	case 6, 7:
		s = g.R.Pick(escapeWords)
	case 8:
		s = g.R.Pick(sepWords)
	default:
		// concatenation
		s = g.R.Pick(asciiWords) + g.R.Pick(unicodeWords) + g.R.Pick(escapeWords)
	}
	if forbid != "" {
		s = strings.Map(func(r rune) rune {
			if strings.ContainsRune(forbid, r) {
				return '_'
			}
			return r
		}, s)
	}
	return s
}

func (g *G) NonEmpty(forbid string) string {
	s := g.Str(forbid)
	if s == "" {
		return "x"
	}
	return s
}

func (g *G) Identity() lime.Identity {
	id := lime.Identity{Name: g.NonEmpty("@/")}
	if g.R.Chance(3, 4) {
		id.Domain = g.NonEmpty("@/")
	}
	return id
}

// Node returns a non-zero node.
func (g *G) Node() lime.Node {
	n := lime.Node{Identity: g.Identity()}
	if g.R.Chance(1, 2) {
		n.Instance = g.NonEmpty("/")
	}
	return n
}

// MediaTypeFor returns a media type that the decoder will map to the given default factory kind.
func (g *G) textMediaType() lime.MediaType {
	if g.R.Chance(1, 2) {
		return lime.MediaTypeTextPlain()
	}
	return lime.MediaType{Type: g.R.Pick([]string{"text", "image", "audio", "video", "application", "x-ünï"}), Subtype: g.R.Pick([]string{"unknown", "x-custom", "vnd.a.b", "plain2", "日本"}), Suffix: g.R.Pick([]string{"", "", "xml", "x"})}
}

func (g *G) jsonMediaType() lime.MediaType {
	if g.R.Chance(1, 2) {
		return lime.MediaTypeApplicationJson()
	}
	return lime.MediaType{Type: g.R.Pick([]string{"application", "text", "x"}), Subtype: g.R.Pick([]string{"unknown", "vnd.x.y", "x-custom"}), Suffix: "json"}
}

// AnyMediaType returns an arbitrary non-zero, well-formed media type (for fields that only carry a type).
func (g *G) AnyMediaType() lime.MediaType {
	switch g.R.Intn(4) {
	case 0:
		return g.textMediaType()
	case 1:
		return g.jsonMediaType()
	case 2:
		return lime.MediaTypePing()
	default:
		return lime.MediaType{Type: g.NonEmpty("/+"), Subtype: g.NonEmpty("/+"), Suffix: g.Str("/+")}
	}
}

func (g *G) jsonValue(depth int) interface{} {
	k := g.R.Intn(8)
	if depth <= 0 && k >= 6 {
		k = g.R.Intn(6)
	}
	switch k {
	case 0:
		return g.Str("")
	case 1:
		return float64(g.R.Intn(2000001) - 1000000)
	case 2:
		return []float64{0.5, -1.25, 1e10, 9007199254740991, 3.141592653589793, 1e-7, 0}[g.R.Intn(7)]
	case 3:
		return g.R.Bool()
	case 4:
		return nil
	case 5:
		return g.Str("")
	case 6:
		n := g.R.Intn(4)
		l := make([]interface{}, n)
		for i := range l {
			l[i] = g.jsonValue(depth - 1)
		}
		return l
	default:
		return g.jsonMap(depth - 1)
	}
}

func (g *G) jsonMap(depth int) map[string]interface{} {
	n := g.R.Intn(4)
	m := map[string]interface{}{}
	for i := 0; i < n; i++ {
		m[g.Str("")] = g.jsonValue(depth)
	}
	return m
}

func (g *G) timeVal() *time.Time {
	t := time.Date(1970+g.R.Intn(80), time.Month(1+g.R.Intn(12)), 1+g.R.Intn(28), g.R.Intn(24), g.R.Intn(60), g.R.Intn(60), g.R.Intn(1000)*1000000, time.UTC)
	if g.R.Chance(1, 3) {
		t = t.In(time.FixedZone("", (g.R.Intn(25)-12)*3600))
	}
	return &t
}

func (g *G) boolPtr() *bool {
	if g.R.Chance(1, 2) {
		return nil
	}
	b := g.R.Bool()
	return &b
}

func (g *G) intPtr() *int {
	if g.R.Chance(1, 2) {
		return nil
	}
	i := g.R.Intn(1000) - 100
	return &i
}

func (g *G) optStr() string {
	if g.R.Chance(1, 2) {
		return ""
	}
	return g.Str("")
}

func (g *G) strMap() map[string]string {
	switch g.R.Intn(3) {
	case 0:
		return nil
	case 1:
		return map[string]string{}
	}
	m := map[string]string{}
	for i := 0; i <= g.R.Intn(3); i++ {
		m[g.Str("")] = g.Str("")
	}
	return m
}

// Document returns (document, kind path). The media type to put next to it is doc.MediaType() unless
// the document is a default-factory text/json document, in which case a compatible type is returned.
func (g *G) Document(depth int, path string) (lime.Document, lime.MediaType, string) {
	k := g.R.Intn(12)
	if depth <= 0 && (k == 2 || k == 3) {
		k = g.R.Intn(2)
	}
	switch k {
	case 0, 9:
		d := lime.TextDocument(g.Str(""))
		return d, g.textMediaType(), path + "text"
	case 1, 10:
		d := lime.JsonDocument(g.jsonMap(2))
		return &d, g.jsonMediaType(), path + "json"
	case 2:
		inner, mt, p := g.Document(depth-1, path+"container>")
		return &lime.DocumentContainer{Type: mt, Value: inner}, (&lime.DocumentContainer{}).MediaType(), p
	case 3:
		// homogeneous collection; item type decides the factory for every item
		n := g.R.Intn(4)
		var items []lime.Document
		var itemType lime.MediaType
		var p string
		sub := New(g.R.Uint64())
		sub.Paths = g.Paths
		first, mt, fp := sub.Document(depth-1, path+"collection>")
		itemType, p = mt, fp
		kindOf := fmt.Sprintf("%T", first)
		if n > 0 {
			items = append(items, first)
		}
		for len(items) < n {
			d, mt2, _ := sub.Document(depth-1, path+"collection>")
			if fmt.Sprintf("%T", d) != kindOf {
				continue
			}
			// the items share one media type: containers and registered types have a fixed one; for default text/json reuse
			if mt2 != itemType {
				if _, isText := d.(lime.TextDocument); !isText {
					if _, isJSON := d.(*lime.JsonDocument); !isJSON {
						continue
					}
				}
			}
			items = append(items, d)
		}
		if n == 0 && g.R.Bool() {
			items = []lime.Document{}
		}
		c := &lime.DocumentCollection{Total: g.R.Intn(100), ItemType: itemType, Items: items}
		return c, c.MediaType(), p
	case 4:
		return &lime.Ping{}, lime.MediaTypePing(), path + "ping"
	case 5:
		a := &chat.Account{FullName: g.optStr(), IsTemporary: g.boolPtr(), Password: g.optStr(), InboxSize: g.intPtr(), AllowAnonymousSender: g.boolPtr(), AccessKey: g.optStr(), PublishToDirectory: g.boolPtr()}
		if g.R.Bool() {
			id := g.Identity()
			a.AlternativeAccount = &id
		}
		g.fillContact(a)
		return a, a.MediaType(), path + "chat.account"
	case 6:
		c := &chat.Contact{Name: g.optStr(), IsPending: g.boolPtr(), SharePresence: g.boolPtr(), Priority: g.intPtr(), Group: g.optStr()}
		if g.R.Bool() {
			c.LastMessageDate = g.timeVal()
		}
		g.fillContact(c)
		return c, c.MediaType(), path + "chat.contact"
	case 7:
		p := &chat.Presence{Status: chat.PresenceStatus(g.R.Pick([]string{"", "available", "busy", "away", "invisible", "unavailable"})), Message: g.optStr(),
			RoutingRule: chat.RoutingRule(g.R.Pick([]string{"", "instance", "identity", "domain", "rootDomain"})), Priority: g.intPtr(), Echo: g.boolPtr(), RoundRobin: g.boolPtr()}
		if g.R.Bool() {
			p.LastSeen = g.timeVal()
		}
		if g.R.Bool() {
			p.Instances = []string{g.Str(""), g.Str("")}
		}
		return p, p.MediaType(), path + "chat.presence"
	case 8:
		if g.R.Bool() {
			r := &chat.Receipt{}
			evs := []lime.NotificationEvent{lime.NotificationEventAccepted, lime.NotificationEventDispatched, lime.NotificationEventReceived, lime.NotificationEventConsumed, lime.NotificationEventFailed}
			for i := 0; i < g.R.Intn(4); i++ {
				r.Events = append(r.Events, evs[g.R.Intn(len(evs))])
			}
			return r, r.MediaType(), path + "chat.receipt"
		}
		d := &chat.Delegation{Target: g.Node()}
		if g.R.Bool() {
			d.EnvelopeTypes = []string{"message", g.Str("")}
		}
		for i := 0; i < g.R.Intn(3); i++ {
			d.Messages = append(d.Messages, chat.DelegationMessage{Type: g.AnyMediaType()})
		}
		for i := 0; i < g.R.Intn(3); i++ {
			d.Notifications = append(d.Notifications, chat.DelegationNotification{Event: lime.NotificationEvent(g.R.Pick([]string{"", "accepted", "failed", "consumed"}))})
		}
		for i := 0; i < g.R.Intn(3); i++ {
			dc := chat.DelegationCommand{Method: lime.CommandMethod(g.R.Pick([]string{"", "get", "set", "observe"})), Status: lime.CommandStatus(g.R.Pick([]string{"", "success", "failure"}))}
			if g.R.Bool() {
				dc.URI = g.URI()
			}
			d.Commands = append(d.Commands, dc)
		}
		return d, d.MediaType(), path + "chat.delegation"
	default:
		v := &VerifDoc{Token: g.Str(""), N: g.R.Intn(5), Attrs: g.strMap()}
		if g.R.Bool() {
			v.Tags = []string{g.Str(""), g.Str("")}
		}
		if g.R.Bool() {
			v.Inner = &VerifInner{A: g.Str(""), B: float64(g.R.Intn(100)) / 4, C: g.R.Bool()}
		}
		return v, v.MediaType(), path + "custom"
	}
}

type contactLike interface{}

func (g *G) fillContact(c contactLike) {
	// chat.contact is unexported but its fields are promoted and exported
	set := func(identity *lime.Identity, address, city, email string, photo *url.URL, offset float32, extras map[string]string, birth *time.Time) {
		switch x := c.(type) {
		case *chat.Account:
			x.Identity, x.Address, x.City, x.Email, x.PhotoUri, x.Offset, x.Extras, x.BirthDate = identity, address, city, email, photo, offset, extras, birth
		case *chat.Contact:
			x.Identity, x.Address, x.City, x.Email, x.PhotoUri, x.Offset, x.Extras, x.BirthDate = identity, address, city, email, photo, offset, extras, birth
		}
	}
	var id *lime.Identity
	if g.R.Bool() {
		i := g.Identity()
		id = &i
	}
	var photo *url.URL
	if g.R.Bool() {
		photo, _ = url.Parse(g.R.Pick([]string{"http://example.org/p.png", "https://a.b/c?d=e#f", "/relative/path", "lime://y/z"}))
	}
	var birth *time.Time
	if g.R.Bool() {
		birth = g.timeVal()
	}
	set(id, g.optStr(), g.optStr(), g.optStr(), photo, []float32{0, -3, 5.5, 12, -9.75}[g.R.Intn(5)], g.strMap(), birth)
}

var uriPool = []string{"/ping", "/presence", "/p/q?x=1", "/account/alice%40b", "lime://a@b/p", "lime://postmaster@msging.net/contacts?$skip=0&$take=10", "/a%20b", "/x#frag", "/", "/sessions/1/2/3", "lime://b/p?q=%2F"}

func (g *G) URI() *lime.URI {
	u, err := lime.ParseLimeURI(g.R.Pick(uriPool))
	if err != nil {
		panic(err)
	}
	return u
}

func (g *G) reason() *lime.Reason {
	switch g.R.Intn(4) {
	case 0:
		return nil
	case 1:
		return &lime.Reason{}
	case 2:
		return &lime.Reason{Code: g.R.Intn(100)}
	}
	return &lime.Reason{Code: g.R.Intn(100) + 1, Description: g.Str("")}
}

// FieldMask controls which optional envelope fields are populated (bit set).
const (
	FID = 1 << iota
	FFrom
	FPP
	FTo
	FMeta
	FReason
	FResource
	FExtra1
	FExtra2
	FExtra3
)

func (g *G) envelope(mask int) lime.Envelope {
	var e lime.Envelope
	if mask&FID != 0 {
		e.ID = g.NonEmpty("")
	}
	if mask&FFrom != 0 {
		e.From = g.Node()
	}
	if mask&FPP != 0 {
		e.PP = g.Node()
	}
	if mask&FTo != 0 {
		e.To = g.Node()
	}
	if mask&FMeta != 0 {
		e.Metadata = map[string]string{g.Str(""): g.Str("")}
		if g.R.Bool() {
			e.Metadata[g.Str("")] = g.Str("")
		}
	}
	return e
}

var Methods = []lime.CommandMethod{lime.CommandMethodGet, lime.CommandMethodSet, lime.CommandMethodDelete, lime.CommandMethodSubscribe, lime.CommandMethodUnsubscribe, lime.CommandMethodObserve, lime.CommandMethodMerge}
var Events = []lime.NotificationEvent{lime.NotificationEventAccepted, lime.NotificationEventDispatched, lime.NotificationEventReceived, lime.NotificationEventConsumed, lime.NotificationEventFailed}
var States = []lime.SessionState{lime.SessionStateNew, lime.SessionStateNegotiating, lime.SessionStateAuthenticating, lime.SessionStateEstablished, lime.SessionStateFinishing, lime.SessionStateFinished, lime.SessionStateFailed}

func (g *G) Message(mask int) (*lime.Message, string) {
	d, mt, p := g.Document(g.MaxDepth, "")
	g.Paths[p] = true
	return &lime.Message{Envelope: g.envelope(mask), Type: mt, Content: d}, p
}

func (g *G) Notification(mask int) *lime.Notification {
	n := &lime.Notification{Envelope: g.envelope(mask), Event: Events[g.R.Intn(len(Events))]}
	if mask&FReason != 0 {
		n.Reason = g.reason()
	}
	return n
}

func (g *G) command(mask int) (lime.Command, string) {
	c := lime.Command{Envelope: g.envelope(mask), Method: Methods[g.R.Intn(len(Methods))]}
	p := "none"
	if mask&FResource != 0 {
		d, mt, dp := g.Document(g.MaxDepth, "")
		g.Paths[dp] = true
		c.Resource = d
		t := mt
		c.Type = &t
		p = dp
	}
	return c, p
}

func (g *G) RequestCommand(mask int) (*lime.RequestCommand, string) {
	c, p := g.command(mask)
	return &lime.RequestCommand{Command: c, URI: g.URI()}, p
}

func (g *G) ResponseCommand(mask int) (*lime.ResponseCommand, string) {
	c, p := g.command(mask)
	r := &lime.ResponseCommand{Command: c, Status: lime.CommandStatusSuccess}
	if g.R.Bool() {
		r.Status = lime.CommandStatusFailure
	}
	if mask&FReason != 0 {
		r.Reason = g.reason()
	}
	return r, p
}

func (g *G) Authentication() lime.Authentication {
	switch g.R.Intn(5) {
	case 0:
		return &lime.GuestAuthentication{}
	case 1:
		a := &lime.PlainAuthentication{}
		if g.R.Bool() {
			a.SetPasswordAsBase64(g.Str(""))
		} else {
			a.Password = g.Str("")
		}
		return a
	case 2:
		a := &lime.KeyAuthentication{}
		a.SetKeyAsBase64(g.Str(""))
		return a
	case 3:
		return &lime.TransportAuthentication{}
	}
	return &lime.ExternalAuthentication{Token: g.Str(""), Issuer: g.Str("")}
}

func (g *G) Session(mask int) *lime.Session {
	s := &lime.Session{Envelope: g.envelope(mask), State: States[g.R.Intn(len(States))]}
	if mask&FReason != 0 {
		s.Reason = g.reason()
	}
	if mask&FResource != 0 { // reused bit: authentication
		s.SetAuthentication(g.Authentication())
	}
	if mask&FExtra1 != 0 {
		encs := []lime.SessionEncryption{lime.SessionEncryptionNone, lime.SessionEncryptionTLS}
		comps := []lime.SessionCompression{lime.SessionCompressionNone, lime.SessionCompressionGzip}
		s.EncryptionOptions = encs[:1+g.R.Intn(2)]
		s.CompressionOptions = comps[:1+g.R.Intn(2)]
	}
	if mask&FExtra2 != 0 {
		s.Encryption = []lime.SessionEncryption{lime.SessionEncryptionNone, lime.SessionEncryptionTLS}[g.R.Intn(2)]
		s.Compression = []lime.SessionCompression{lime.SessionCompressionNone, lime.SessionCompressionGzip}[g.R.Intn(2)]
	}
	if mask&FExtra3 != 0 {
		all := []lime.AuthenticationScheme{lime.AuthenticationSchemeGuest, lime.AuthenticationSchemePlain, lime.AuthenticationSchemeKey, lime.AuthenticationSchemeTransport, lime.AuthenticationSchemeExternal}
		n := 1 + g.R.Intn(len(all))
		perm := g.R.Perm(len(all))
		for _, i := range perm[:n] {
			s.SchemeOptions = append(s.SchemeOptions, all[i])
		}
		if s.Authentication == nil && g.R.Bool() {
			s.Scheme = all[g.R.Intn(len(all))]
		}
	}
	return s
}

// Kinds.
const (
	KMessage = iota
	KNotification
	KRequest
	KResponse
	KSession
	NKinds
)

var KindNames = []string{"message", "notification", "request", "response", "session"}

// Envelope generates an envelope of the kind with the optional-field mask; returns value, doc path.
func (g *G) Envelope(kind, mask int) (interface{}, string) {
	switch kind {
	case KMessage:
		return g.Message(mask)
	case KNotification:
		return g.Notification(mask), "-"
	case KRequest:
		return g.RequestCommand(mask)
	case KResponse:
		return g.ResponseCommand(mask)
	default:
		return g.Session(mask), "-"
	}
}

// MaskBits returns how many optional-field bits are meaningful for a kind.
func MaskBits(kind int) int {
	switch kind {
	case KMessage:
		return 5
	case KNotification:
		return 6
	case KRequest:
		return 7
	case KResponse:
		return 7
	default:
		return 10
	}
}

// KindOf returns the kind name of a decoded/generated envelope value.
func KindOf(v interface{}) string {
	switch v.(type) {
	case *lime.Message:
		return "message"
	case *lime.Notification:
		return "notification"
	case *lime.RequestCommand:
		return "request"
	case *lime.ResponseCommand:
		return "response"
	case *lime.Session:
		return "session"
	}
	return fmt.Sprintf("%T", v)
}

func SortedKeys(m map[string]bool) []string {
	var l []string
	for k := range m {
		l = append(l, k)
	}
	sort.Strings(l)
	return l
}
